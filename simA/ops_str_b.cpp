// Engine A: const operations on ST::string — searching, slicing, case mapping, replacing, splitting,
// converting, comparing, hashing, formatting, streaming, concatenating (C04; also C18/C19 histories).
#include "textarg.h"
#include <string_theory/stdio>
#include <cstdio>
#include <functional>
#include <sstream>
#include <thread>

namespace A { struct Thrower { int after; }; }
namespace ST {
// a user-defined formatter that gives up half-way with an exception type of its own (the library has to unwind through its own frames)
struct user_formatter_error { int code; };
inline void format_type(const ST::format_spec &, ST::format_writer &output, const A::Thrower &t) {
    output.append("partial output of a user formatter, longer than any small buffer: 0123456789 0123456789");
    if (t.after) output.append_char('#', (size_t)t.after * 40);
    throw user_formatter_error{t.after};
}
}
namespace A {

static void note_sig(Ctx &c, const Op &op, const std::string &extra) {
    c.site = std::string(op_name(op.kind)) + "(" + extra + ")";
    c.sig.u8((uint8_t)op.kind); c.sig.str(extra.c_str());
}
static char cl(const StrObj *o) { return cls_letter(o->model.size(), 16); }

// harness-owned temporary ST::string (allocated outside the fault plan and the SUT ledger)
struct TempStr {
    void *mem; ST::string *p;
    explicit TempStr(const std::string &bytes) {
        mem = obj_alloc(sizeof(ST::string));
        simrt::heap_op_begin(0);
        p = new (mem) ST::string(ST::string::from_validated(bytes.data(), bytes.size()));
    }
    ~TempStr() { p->~string(); obj_free(mem); }
    TempStr(const TempStr &) = delete;
};

// character boundaries of a (possibly malformed) UTF-8 byte string: positions that do not start with a continuation byte
static size_t boundary_at_or_before(const std::string &s, size_t pos) {
    if (pos > s.size()) pos = s.size();
    while (pos > 0 && pos < s.size() && ((unsigned char)s[pos] & 0xC0) == 0x80) --pos;
    return pos;
}

struct Needle {
    std::string bytes;
    StrObj *pool = nullptr;
    bool from_hay = false;
};
// form 0: pool string, 1: slice of the haystack at character boundaries, 2: one ASCII byte (present in haystack if possible), 3: source text
static void make_needle(Ctx &c, const StrObj *hay, uint32_t sel, unsigned form, bool nonempty, bool no_nul, Needle &n) {
    const std::string &h = hay->model;
    switch (form & 3) {
    case 0: n.pool = pick(c.strs, sel); n.bytes = n.pool->model; break;
    case 1: {
        if (h.empty()) { n.bytes = "x"; break; }
        size_t a = boundary_at_or_before(h, sel % h.size());
        size_t len = 1 + (sel >> 8) % 5;
        size_t b = boundary_at_or_before(h, std::min(h.size(), a + len));
        if (b <= a) { b = a + 1; while (b < h.size() && ((unsigned char)h[b] & 0xC0) == 0x80) ++b; }
        n.bytes = h.substr(a, b - a); n.from_hay = true;
        break;
    }
    case 2: {
        char ch = 0;
        for (size_t k = 0; k < h.size(); k++) { unsigned char u = (unsigned char)h[(sel + k) % h.size()]; if (u >= 0x20 && u < 0x7F) { ch = (char)u; break; } }
        if (!ch) ch = (char)('a' + sel % 26);
        n.bytes = std::string(1, ch);
        break;
    }
    default: n.bytes = take_units<char>(c, sel, 1 + (sel >> 4) % 6); break;
    }
    if (no_nul) { size_t p = n.bytes.find('\0'); if (p != std::string::npos) { n.bytes.resize(p); n.pool = nullptr; } }
    if (nonempty && n.bytes.empty()) { n.bytes = "-"; n.pool = nullptr; }
}

static StrObj *new_str_result(Ctx &c, void *mem, const StrObj *parent) {
    StrObj *o = add_str(c, mem); o->role = ROLE_NEW; o->st = M_ADOPT; o->parent = parent ? parent->serial : 0; return o;
}

template <class T> static void buf_make_room(Ctx &c) {
    auto &v = c.bufs<T>();
    while (v.size() >= c.plan->k.pool_cap && v.size() > 1) {
        BufObj<T> *o = v[(size_t)(c.step * 7 + 3) % v.size()];
        note_destroying(c, o);
        { simrt::SutScope s; o->p()->~buffer(); }
        obj_free(o->mem); remove_obj(c, o); delete o;
    }
}
static void vec_make_room(Ctx &c) {
    auto &v = c.vecs;
    while (v.size() >= std::max<uint32_t>(2, c.plan->k.pool_cap / 2) && !v.empty()) {
        VecObj *o = v[(size_t)(c.step * 7 + 3) % v.size()];
        note_destroying(c, o);
        { simrt::SutScope s; o->p()->~vector(); }
        obj_free(o->mem); remove_obj(c, o); delete o;
    }
}

static const char *const CHARSETS[] = {" \t\r\n", "x", "ab ", "0123456789", "\n", " .,;", "ABCDEFGHIJKLMNOPQRSTUVWXYZ"};
// (11 and 12 carry 300 and 1100 bytes of literal text - a format string longer than the in-object capacity of the stream behind ST::format; 13 pads to 1200)
#define LIT100 "0123456789abcdefghijklmnopqrstuvwxyz-ABCDEFGHIJKLMNOPQRSTUVWXYZ_0123456789abcdefghijklmnopqrstuvwxyz+"
#define LIT300 LIT100 LIT100 LIT100
static const char *const FORMATS[] = {"{}", "{}{}", "[{}] and [{}]", "{>24}", "{<24}|{}", "{&2}{&1}", "{_*>20}", "{{{}}}", "{&1}{&1}{&2}", "{.3}", "{.40}x{<3}",
                                      LIT300 "{}|{}", "{}" LIT300 LIT300 "{{" LIT300 LIT100 LIT100 "{>5}", "{>1200}|{<300}"};

typedef decltype(ST::literals::operator"" _stfmt("", 0)) StoredFmt;
static const char *const SLOT_FORMATS[4] = {"{}-{}", "[{>12}] [{}]", "{&2}/{&1}/{}", "{.6}|{<4}"};
void destroy_fmt_slots(Ctx &c) {
    for (void *&p : c.fmt_slots) if (p) { { simrt::SutScope s; static_cast<StoredFmt *>(p)->~StoredFmt(); } obj_free(p); p = nullptr; }
}

bool exec_str_b(Ctx &c, const Op &op) {
    Family fam = META[op.kind].fam;
    if (fam != SS && fam != SD && fam != VV) return false;
    auto &v = c.strs;
    typedef ST::string S;
    switch (op.kind) {     // room for the result is made before any operand is selected
    case S_SUBSTR: case S_TRIM: case S_BEFORE_AFTER: case S_CASE: case S_REPLACE: case S_PLUS: case S_PLUS_CH: case S_FORMAT:
    case S_CODEC: case V_ELEM_COPY: case V_ELEM_MOVE: case S_STFMT: str_make_room(c); break;
    default: break;
    }
    switch (op.kind) {
    // ------------------------------------------------------------ scalar-valued const operations
    case S_FIND: {
        StrObj *h = pick(v, op.a);
        if (!h) { c.skipped = true; return true; }
        unsigned form = op.d & 3, ci = (op.d >> 2) & 1, which = (op.d >> 3) % 5, ov = (op.d >> 6) & 3;
        Needle n; make_needle(c, h, op.b, ov == 0 ? 2 : form, false, ov == 1, n);
        size_t start = resolve_code(op.c, h->model.size());
        note_sig(c, op, std::string("hay=") + cl(h) + ",which=" + std::to_string(which) + ",ov=" + std::to_string(ov) + (n.pool == h ? ",self" : ""));
        c.budget_bytes = h->model.size() * (1 + std::min<size_t>(n.bytes.size(), 16)) + 4 * n.bytes.size();
        as_const(h); if (n.pool) as_const(n.pool);
        if (n.pool == h) probe(c, PR_SELF_REFERENTIAL);
        ST::case_sensitivity_t cs = ci ? ST::case_insensitive : ST::case_sensitive;
        std::unique_ptr<TempStr> tmp; if (ov == 3 && !n.pool) tmp.reset(new TempStr(n.bytes));
        const S &ns = n.pool ? *n.pool->p() : tmp ? *tmp->p : *h->p();
        bool use_start = start != ST_AUTO_SIZE && (op.c & 1);
        ExcKind ex = run_sut(c, op, [&] {
            const S &s = *h->p();
            volatile ST_ssize_t r = 0; volatile bool b = false;
            switch (which) {
            case 0:
                if (ov == 0) r = use_start ? s.find(start, n.bytes[0], cs) : s.find(n.bytes[0], cs);
                else if (ov == 1) r = use_start ? s.find(start, n.bytes.c_str(), cs) : s.find(n.bytes.c_str(), cs);
                else if (ov == 2) r = use_start ? s.find(start, n.bytes.data(), n.bytes.size(), cs) : s.find(n.bytes.data(), n.bytes.size(), cs);
                else r = use_start ? s.find(start, ns, cs) : s.find(ns, cs);
                break;
            case 1:
                if (ov == 0) r = use_start ? s.find_last(start, n.bytes[0], cs) : s.find_last(n.bytes[0], cs);
                else if (ov == 1) r = use_start ? s.find_last(start, n.bytes.c_str(), cs) : s.find_last(n.bytes.c_str(), cs);
                else if (ov == 2) r = use_start ? s.find_last(start, n.bytes.data(), n.bytes.size(), cs) : s.find_last(n.bytes.data(), n.bytes.size(), cs);
                else r = use_start ? s.find_last(start, ns, cs) : s.find_last(ns, cs);
                break;
            case 2:
                if (ov == 0) b = s.contains(n.bytes[0], cs);
                else if (ov == 1) b = s.contains(n.bytes.c_str(), cs);
                else if (ov == 2) b = s.contains(n.bytes.data(), n.bytes.size(), cs);
                else b = s.contains(ns, cs);
                break;
            case 3: b = (ov == 3) ? s.starts_with(ns, cs) : s.starts_with(n.bytes.c_str(), cs); break;
            default: b = (ov == 3) ? s.ends_with(ns, cs) : s.ends_with(n.bytes.c_str(), cs); break;
            }
            (void)r; (void)b;
        });
        settle(c, op, ex, 0);
        return true;
    }
    case S_OVERLOADS: {
        // The less-travelled overloads of the const API (char8_t and null_t forms, deprecated validation-mode spellings, 64-bit
        // aliases, char8_t free conversions, decode-into-caller-buffer, every format argument type, the format_writer extension
        // point).  What they *compute* belongs to other properties; here they run under the same oracles as every const call: the
        // receiver and everything else unchanged (I4), ledger clean (I5), only the allowed exceptions, and - in C19 histories and
        // in the enumeration - std::bad_alloc out of any of their allocations.  Values they return are temporaries of the call.
        StrObj *x = pick_str_wf(c, op.a);
        if (!x) { c.skipped = true; return true; }
        unsigned grp = op.b % 11;
        note_sig(c, op, std::string("obj=") + cl(x) + ",group=" + std::to_string(grp));
        c.budget_bytes = x->model.size() * 64 + 256;
        as_const(x);
        Scalars sc; decode_utf8_strict(x->model, sc);
        // needle: one or two whole characters of the receiver (or plain ASCII when it is empty)
        std::string nd; { Scalars t; if (!sc.empty()) { size_t a = op.c % sc.size(); t.push_back(sc[a]); if ((op.c & 1) && a + 1 < sc.size()) t.push_back(sc[a + 1]); } enc_utf8(t, nd); }
        if (nd.empty() || nd.find('\0') != std::string::npos) nd = (op.c & 2) ? "e" : "ab";
        const char8_t *n8 = reinterpret_cast<const char8_t *>(nd.c_str());
        const size_t nn = nd.size(), st0 = sc.empty() ? 0 : (op.c >> 3) % (x->model.size() + 1);
        const ST::case_sensitivity_t cs = (op.c & 4) ? ST::case_insensitive : ST::case_sensitive;
        std::string narrow = x->model; std::wstring wide(sc.begin(), sc.end()); std::u16string w16; enc_utf16(sc, w16); std::u32string w32 = sc;
        std::u8string w8(reinterpret_cast<const char8_t *>(x->model.data()), x->model.size());
        bool has_nul = x->model.find('\0') != std::string::npos;
        bool lat_ok = true; for (char32_t ch : sc) if (ch >= 0x100) lat_ok = false;
        unsigned allowed = 0; bool numfmt_changed = false;
        Op o2 = op;
        if (grp == 9) o2.fault &= ~F_ALLOC;      // sinks owned by libstdc++ / glibc: engine C's business (they swallow exceptions)
        ExcKind ex = run_sut(c, o2, [&] {
            const S &s = *x->p();
            volatile ST_ssize_t r = 0; volatile bool b = false; volatile unsigned long long q = 0;      // (unsigned: sums of arbitrary parsed values must not overflow)
            switch (grp) {
            case 0:     // char8_t searches and comparisons
                r = s.find(n8, cs); r = s.find(n8, nn, cs); r = s.find(st0, n8, cs); r = s.find(st0, n8, nn, cs);
                r = s.find_last(n8, cs); r = s.find_last(n8, nn, cs); r = s.find_last(st0, n8, cs); r = s.find_last(st0, n8, nn, cs);
                b = s.contains(n8, cs); b = s.contains(n8, nn, cs); b = s.starts_with(n8, cs); b = s.ends_with(n8, cs);
                r = s.compare(n8, cs); r = s.compare_n(n8, nn, cs); r = s.compare_i(n8); r = s.compare_ni(n8, nn); b = (s == n8); b = (s != n8); b = (n8 == s); b = (n8 != s);
                break;
            case 1: {   // null_t forms, substitute accessors, buffer comparisons with plain pointers
                b = (s == ST::null); b = (s != ST::null); b = (ST::null == s); b = (ST::null != s);
                q = (unsigned long long)std::strlen(s.c_str("(none)")); q = (unsigned long long)std::char_traits<char8_t>::length(s.u8_str(u8"(none)"));
                ST::char_buffer cb = s.to_utf8(); r = cb.compare_n(nd.c_str(), nn); r = cb.compare(nd.c_str()); b = (cb == ST::null); b = (ST::null != cb);
                using namespace ST::literals; ST::char_buffer lit = u8"café literal beyond sixteen"_stbuf; r = cb.compare(lit); ST::string sl = u8"sé"_st; b = (sl == s);
                break; }
            case 2: {   // char8_t forms that build strings (temporaries of the call)
                { S t = s.before_first(n8, cs); q += (unsigned long long)t.size(); } { S t = s.after_first(n8, cs); q += (unsigned long long)t.size(); }
                { S t = s.before_last(n8, cs); q += (unsigned long long)t.size(); } { S t = s.after_last(n8, cs); q += (unsigned long long)t.size(); }
                { S t = s.replace(n8, u8"<8>", cs); q += (unsigned long long)t.size(); } { S t = s.replace(S(nd.c_str()), u8"<8>", cs); q += (unsigned long long)t.size(); }
                { S mine(s); S t = mine.replace(n8, S("[s]"), cs); q += (unsigned long long)t.size(); }
                { std::vector<S> v = s.split(n8, (op.c & 8) ? ST_AUTO_SIZE : 2, cs); q += (unsigned long long)v.size(); }
                break; }
            case 3: {   // deprecated validation-mode spellings (substitute mode: cannot throw)
                { ST::char_buffer t = s.to_latin_1(ST::substitute_invalid); q += (unsigned long long)t.size(); }
                { ST::char_buffer t; s.to_buffer(t, false, ST::substitute_invalid); s.to_buffer(t, true, ST::substitute_invalid); q += (unsigned long long)t.size(); }
                { std::string t = s.to_std_string(false, ST::substitute_invalid); s.to_std_string(t, false, ST::substitute_invalid); s.to_std_string(t, true, ST::check_validity); q += (unsigned long long)t.size(); }
                break; }
            case 4: {   // 64-bit aliases and the double overload of from_float
                long long v = int_value(op.c); int base = 2 + (int)(op.c % 35);
                { S t = S::from_int64((int64_t)v, base, op.c & 1); q += (unsigned long long)t.size(); } { S t = S::from_uint64((uint64_t)v, base, !(op.c & 1)); q += (unsigned long long)t.size(); }
                { S t = S::from_float((double)(v % 100000) / 7.0, 'e'); q += (unsigned long long)t.size(); }
                ST::conversion_result cr; q += (unsigned long long)s.to_int64(0); q += (unsigned long long)s.to_int64(cr, 10); q += (unsigned long long)s.to_uint64(16); q += (unsigned long long)s.to_uint64(cr, 0);
                break; }
            case 5: {   // char8_t free conversions
                const char8_t *p8 = reinterpret_cast<const char8_t *>(s.c_str());
                { auto t = ST::utf8_to_utf16(p8, s.size(), ST::check_validity); q += (unsigned long long)t.size(); } { auto t = ST::utf8_to_utf32(p8, s.size(), ST::substitute_invalid); q += (unsigned long long)t.size(); }
                { auto t = ST::utf8_to_wchar(p8, s.size(), ST::assume_valid); q += (unsigned long long)t.size(); } { auto t = ST::utf8_to_latin_1(p8, s.size(), ST::substitute_invalid); q += (unsigned long long)t.size(); }
                break; }
            case 6: {   // codecs into a caller-owned array
                S hx = ST::hex_encode(s.c_str(), s.size()), b6 = ST::base64_encode(s.c_str(), s.size());
                std::vector<char> out(s.size() + 4);
                q += (unsigned long long)ST::hex_decode(hx, out.data(), out.size()); q += (unsigned long long)ST::base64_decode(b6, out.data(), out.size());
                q += (unsigned long long)ST::hex_decode(hx, nullptr, 0); q += (unsigned long long)ST::base64_decode(b6, nullptr, 0); q += (unsigned long long)ST::hex_decode(hx, out.data(), s.size() / 2);
                { S t = ST::hex_encode(s.to_utf8()); q += (unsigned long long)t.size(); } { S t = ST::base64_encode(s.to_utf8()); q += (unsigned long long)t.size(); }
                break; }
            case 7: {   // every scalar format argument type
                long long v = int_value(op.c);
                { S t = ST::format("{}|{c}|{}|{}|{}|{}|{x}", 'a', 66, L'w', char16_t(0x20AC), char32_t(0x1F600), char8_t('8'), (signed char)-5); q += (unsigned long long)t.size(); }
                { S t = ST::format("{}|{x}|{o}|{b}|{#x}|{+}|{08}|{_-10}", v == (-9223372036854775807LL - 1) ? 1LL : v, (unsigned long long)v, (unsigned long)op.c, (long)(v % 100000), (unsigned short)op.c, (short)-3, (unsigned char)200, (unsigned)op.c); q += (unsigned long long)t.size(); }
                { S t = ST::format("{}/{}|{>8}|{.2f}|{}", true, false, true, 2.5f, (float)(op.c % 1000) / 8); q += (unsigned long long)t.size(); }
                { S t = ST::format("{c}{c}{c}{}", char32_t(0x10FFFF), wchar_t(0xE9), (unsigned char)'u', s); q += (unsigned long long)t.size(); }
                break; }
            case 8: {   // text format arguments of every string type (contents = the receiver's text)
                { S t = ST::format("{}|{>20}|{<20}|{}|{}", narrow, wide, w16, w32, w8); q += (unsigned long long)t.size(); }
                { S t = ST::format("{}|{>12}|{<12}|{>3}|{}", std::string_view(narrow), std::wstring_view(wide), std::u16string_view(w16), std::u32string_view(w32), std::u8string_view(w8)); q += (unsigned long long)t.size(); }
                if (!has_nul) { S t = ST::format("{}|{}|{}|{}|{}", w16.c_str(), w32.c_str(), w8.c_str(), wide.c_str(), narrow.c_str()); q += (unsigned long long)t.size(); }
                { S t = ST::format("{}|{}", s.to_utf8(), s.to_utf16()); q += (unsigned long long)t.size(); } { S t = ST::format("{}|{}", s.to_utf32(), s.to_wchar()); q += (unsigned long long)t.size(); }
                break; }
            case 10: {  // the public numeric formatter objects, kept and reused by their owner: a rejected call leaves the previous result in place
                ST::float_formatter<double> fd; ST::float_formatter<float> ff; ST::uint_formatter<unsigned long long> fu;
                static const char SPEC[] = {'e', 'f', 'g', 'E', 'G'}; static const char BADSPEC[] = {'x', 'd', 0, '%', 'a', ' '};
                fd.format(dbl_value(op.c) > 1e15 || dbl_value(op.c) < -1e15 ? 1.5 : dbl_value(op.c), SPEC[op.c % 5]); ff.format(2.5f + (float)(op.c % 100), SPEC[(op.c >> 3) % 5]); fu.format(op.c * 2654435761ull, 2 + (int)(op.c % 35), op.c & 1);
                std::string d0(fd.text(), fd.size()), f0(ff.text(), ff.size()), u0(fu.text(), fu.size());
                bool threw1 = false, threw2 = false;
                try { fd.format(3.75, BADSPEC[op.c % 6]); } catch (const ST::bad_format &) { threw1 = true; }
                try { ff.format(3.75f, BADSPEC[(op.c >> 4) % 6]); } catch (const ST::bad_format &) { threw2 = true; }
                if (threw1 && std::string(fd.text(), fd.size()) != d0) numfmt_changed = true;
                if (threw2 && std::string(ff.text(), ff.size()) != f0) numfmt_changed = true;
                if (std::string(fu.text(), fu.size()) != u0) numfmt_changed = true;
                fd.format(-0.5, 'g'); q += (unsigned long long)fd.size();
                break; }
            default: {  // the format_writer extension point and the library's own stream / FILE* sinks (thread- and call-local)
                struct W : ST::format_writer { std::string out; explicit W(const char *f) : ST::format_writer(f) {}
                    W &append(const char *d, size_t n = ST_AUTO_SIZE) override { out.append(d, n == ST_AUTO_SIZE ? std::strlen(d) : n); return *this; }
                    W &append_char(char ch, size_t n = 1) override { out.append(n, ch); return *this; } };
                { W w("[{}] [{>8}] tail"); ST::apply_format(w, s, op.c); q += (unsigned long long)w.out.size(); } { W w("no fields"); ST::apply_format(w); static_cast<ST::format_writer &>(w).append("literal text"); q += (unsigned long long)w.out.size(); }
                { std::ostringstream os; ST::writef(os, "{}|{>10}|{x}", s, nd.c_str(), op.c); os << s; q += (unsigned long long)os.str().size(); }
                { std::wostringstream os; ST::writef(os, "{}|{<10}", s, op.c); os << s; q += (unsigned long long)os.str().size(); }
                { char *mem = nullptr; size_t len = 0; FILE *f = open_memstream(&mem, &len); if (f) { ST::printf(f, "{}|{>10}|{_*12}", s, op.c, op.b); std::fclose(f); q += (unsigned long long)len; std::free(mem); } }
                break; }
            }
            (void)r; (void)b; (void)q;
        });
        (void)lat_ok;
        settle(c, o2, ex, allowed);
        if (numfmt_changed) set_viol(c, "state_changed_after_throw", "a numeric formatter object no longer holds its previous result after a call on it threw ST::bad_format");
        return true;
    }
    case S_COMPARE: {
        StrObj *x = pick(v, op.a), *y = pick(v, op.b);
        if (!x) { c.skipped = true; return true; }
        size_t n = resolve_code(op.c, x->model.size()); if (n == ST_AUTO_SIZE) n = x->model.size();
        unsigned which = op.d % 8;
        note_sig(c, op, std::string("l=") + cl(x) + ",r=" + cl(y) + ",which=" + std::to_string(which) + (x == y ? ",self" : ""));
        c.budget_bytes = x->model.size() + y->model.size();
        as_const(x); as_const(y);
        if (x == y) probe(c, PR_SELF_REFERENTIAL);
        bool ok = true;
        std::string ycut = y->model.substr(0, y->model.find('\0'));
        ExcKind ex = run_sut(c, op, [&] {
            const S &a = *x->p(), &b = *y->p();
            bool eq = x->model == y->model;
            switch (which) {
            case 0: if ((a.compare(b) == 0) != eq) ok = false; break;
            case 1: if ((a == b) != eq || (a != b) == eq) ok = false; (void)(a < b); break;
            case 2: (void)a.compare_i(b); (void)a.compare(b, ST::case_insensitive); break;
            case 3: if ((a.compare_n(b, n) == 0) != (x->model.substr(0, n) == y->model.substr(0, n))) ok = false; (void)a.compare_ni(b, n); break;
            case 4: if ((a.compare(ycut.c_str()) == 0) != (x->model == ycut)) ok = false; if ((a == ycut.c_str()) != (x->model == ycut)) ok = false; (void)(a != ycut.c_str()); break;
            case 5: (void)a.compare_n(ycut.c_str(), n); (void)a.compare_i(ycut.c_str()); (void)a.compare_ni(ycut.c_str(), n); break;
            case 6: (void)a.compare((const char *)nullptr); (void)(a == (const char *)nullptr); (void)a.compare((const char8_t *)ycut.c_str()); break;
            default: { ST::less_i li; ST::equal_i ei; (void)li(a, b); if (!ei(a, a)) ok = false; break; }
            }
        });
        settle(c, op, ex, 0);
        if (!ok) set_viol(c, "value_mismatch", "equality of two strings disagrees with equality of their models");
        return true;
    }
    case S_HASH: {
        StrObj *x = pick(v, op.a);
        if (!x) { c.skipped = true; return true; }
        note_sig(c, op, std::string("obj=") + cl(x));
        c.budget_bytes = x->model.size();
        as_const(x);
        bool ok = true, same_as_fresh = true;
        // the hash is an observation of the value: an object with this history must hash like a string freshly built from the same bytes
        TempStr fresh(x->model);
        ExcKind ex = run_sut(c, op, [&] {
            size_t h1 = ST::hash()(*x->p()), h2 = std::hash<ST::string>()(*x->p()), h3 = ST::hash()(*x->p());
            size_t i1 = ST::hash_i()(*x->p());
            if (h1 != h2 || h1 != h3) ok = false;
            if (x->st == M_DEFINITE && (h1 != ST::hash()(*fresh.p) || i1 != ST::hash_i()(*fresh.p) || !(*x->p() == *fresh.p))) same_as_fresh = false;
        });
        settle(c, op, ex, 0);
        if (!ok) set_viol(c, "value_mismatch", "hash of an unchanged string changed between two calls");
        else if (!same_as_fresh) set_viol(c, "value_mismatch", "the string does not hash (or compare) like a string freshly built from the same bytes");
        return true;
    }
    case S_TO_NUM: {
        StrObj *x = pick(v, op.a);
        if (!x) { c.skipped = true; return true; }
        unsigned which = op.b % 14; int base = (op.c % 3 == 0) ? 0 : (op.c % 3 == 1) ? 10 : 16;
        note_sig(c, op, std::string("obj=") + cl(x) + ",which=" + std::to_string(which));
        c.budget_bytes = x->model.size();
        as_const(x);
        ExcKind ex = run_sut(c, op, [&] {
            const S &s = *x->p(); ST::conversion_result r;
            switch (which) {
            case 0: (void)s.to_int(base); (void)s.to_int(r, base); break;
            case 1: (void)s.to_uint(base); (void)s.to_uint(r, base); break;
            case 2: (void)s.to_long(base); (void)s.to_long(r, base); break;
            case 3: (void)s.to_ulong(base); (void)s.to_ulong(r, base); break;
            case 4: (void)s.to_long_long(base); (void)s.to_long_long(r, base); break;
            case 5: (void)s.to_ulong_long(base); (void)s.to_ulong_long(r, base); break;
            case 6: (void)s.to_short(base); (void)s.to_short(r, base); break;
            case 7: (void)s.to_ushort(base); (void)s.to_ushort(r, base); break;
            case 8: (void)s.to_float(); (void)s.to_float(r); break;
            case 9: (void)s.to_double(); (void)s.to_double(r); break;
            case 10: (void)s.to_bool(); (void)s.to_bool(r); break;
            default: (void)s.to_int(); (void)r.ok(); (void)r.full_match(); break;
            }
        });
        settle(c, op, ex, 0);
        return true;
    }
    case S_READ: {
        StrObj *x = pick(v, op.a);
        if (!x) { c.skipped = true; return true; }
        unsigned which = op.b % 5;
        note_sig(c, op, std::string("obj=") + cl(x) + ",which=" + std::to_string(which));
        c.budget_bytes = x->model.size();
        if (x->moved_from) c.touched_moved_from = true;
        as_const(x);
        bool ok = true; std::string why;
        const std::string &m = x->model;
        ExcKind ex = run_sut(c, op, [&] {
            const S &s = *x->p();
            switch (which) {
            case 0:
                if (s.size() != m.size() || s.empty() != m.empty()) { ok = false; why = "size/empty"; }
                if (s.c_str() != s.data() || (const char *)s.u8_str() != s.data()) { ok = false; why = "c_str/data/u8_str"; }
                if (s.front() != (m.empty() ? 0 : m.front()) || s.back() != (m.empty() ? 0 : m.back())) { ok = false; why = "front/back"; }
                break;
            case 1: for (size_t i = 0; i < m.size(); i++) if (s.at(i) != m[i] || s[i] != m[i]) { ok = false; why = "at/[]"; } break;
            case 2: {
                std::string f(s.begin(), s.end()), r(s.rbegin(), s.rend()), cf(s.cbegin(), s.cend()), cr(s.crbegin(), s.crend());
                std::string mr(m.rbegin(), m.rend());
                if (f != m || cf != m || r != mr || cr != mr) { ok = false; why = "iterators"; }
                break;
            }
            case 3: { auto vw = s.view(); if (std::string(vw) != m) { ok = false; why = "view"; } break; }
            default: {
                bool threw = false;
                try { (void)s.at(m.size() + op.b % 3); } catch (const std::out_of_range &) { threw = true; }
                if (!threw) { ok = false; why = "at(size+k) did not throw"; }
                break;
            }
            }
        });
        settle(c, op, ex, 0);
        if (!ok) set_viol(c, "value_mismatch", "read disagrees with the model: " + why);
        return true;
    }
    case S_TO_STD: {
        StrObj *x = pick_str_wf(c, op.a);
        if (!x) { c.skipped = true; return true; }
        unsigned which = op.b % 12;
        note_sig(c, op, std::string("obj=") + cl(x) + ",which=" + std::to_string(which));
        c.budget_bytes = x->model.size() * 4;
        as_const(x);
        // the caller's own std::string handed to the out-parameter overloads is the object being assigned to: it has a previous value
        const std::string prev = ((op.b / 12) & 1) ? "previous value, longer than any small-string buffer" : "old";
        std::string outp = prev;
        Scalars sc; decode_utf8_strict(x->model, sc);
        bool lat_ok = true; std::string lat; for (char32_t ch : sc) { if (ch >= 0x100) { lat_ok = false; lat += '?'; } else lat += (char)ch; }
        std::u16string e16; enc_utf16(sc, e16);
        bool ok = true;
        ExcKind ex = run_sut(c, op, [&] {
            const S &s = *x->p();
            switch (which) {
            case 0: if (s.to_std_string() != x->model) ok = false; break;
            case 1: if (s.to_std_string(false) != lat) ok = false; break;
            case 2: { std::string r; s.to_std_string(r); if (r != x->model) ok = false; std::string r2; s.to_std_string(r2, false, true); if (r2 != lat) ok = false; break; }
            case 3: if (s.to_std_wstring() != std::wstring(sc.begin(), sc.end())) ok = false; break;
            case 4: if (s.to_std_u16string() != e16) ok = false; break;
            case 5: if (s.to_std_u32string() != sc) ok = false; break;
            case 6: { auto u = s.to_std_u8string(); if (std::string((const char *)u.data(), u.size()) != x->model) ok = false; break; }
            case 7: { std::wstring w; s.to_std_string(w); std::u16string a; s.to_std_string(a); std::u32string b; s.to_std_string(b); std::u8string d; s.to_std_string(d);
                      if (a != e16 || b != sc || w.size() != sc.size()) ok = false; break; }
            case 8: { std::string r = s.to_std_string(false, false); if (r != lat) ok = false; break; }     // throws when a character is out of range
            case 10: s.to_std_string(outp, false, false); if (outp != lat) ok = false; break;               // likewise, into the caller's string
            case 11: s.to_std_string(outp, false, ST::check_validity); if (outp != lat) ok = false; break;  // (deprecated spelling of the same call)
            default: if (s.to_std_string(true, false) != x->model) ok = false; break;
            }
        });
        settle(c, op, ex, ((which == 8 || which == 10 || which == 11) && !lat_ok) ? bit(EX_UNICODE) : 0);
        if (which >= 10 && ex != EX_NONE) {
            if (ex == EX_BAD_ALLOC) { if (outp != prev && !outp.empty()) set_viol(c, "target_not_old_or_empty", "the std::string passed to to_std_string(std::string&, ...) holds neither its previous value nor an empty one after std::bad_alloc"); }
            else if (outp != prev) set_viol(c, "state_changed_after_throw", "the std::string passed to to_std_string(std::string&, ...) no longer holds its previous value after the call threw");
        }
        if (!ok) set_viol(c, "value_mismatch", "to_std_*string() result differs from the reference transcoding of the model");
        return true;
    }
    case S_SINKS: {
        // ST::writef / operator<< into a standard stream that allocates while it is written to (a string stream), with and without exceptions(badbit),
        // and ST::printf into a FILE* (memory stream); short and very long padding runs.  Two kinds of fault:
        //  - an allocation fault - the library's own allocation or the sink's, made on the library's behalf: the failure must reach the caller one way
        //    or the other (std::bad_alloc, or badbit on the stream) and nothing may leak (teardown ledger);
        //  - a data fault: the call is made with one argument too few, so it throws after it has produced part of its output.
        // Either way the sink is the caller's object: its formatting state is what it was, and the FILE* is not left locked.
        StrObj *x = pick_str_wf(c, op.a);
        if (!x) { c.skipped = true; return true; }
        const unsigned sink = op.b % 3; const bool wide = sink == 1, file = sink == 2, exc = (op.b >> 2) & 1; const unsigned fmt = (op.b >> 3) % 6;
        // data faults: 0 one argument too few; 1 a precision that cuts a character in two (bytes no wide sink can convert: it throws, narrow sinks do
        // not); 2, 3 both - the call is abandoned for the missing argument *after* it has produced bytes that cannot be converted
        const unsigned dfk = (op.fault & F_CORRUPT) ? op.fc & 3 : 0;
        const bool missing = (op.fault & F_CORRUPT) != 0 && dfk != 1, cut = (op.fault & F_CORRUPT) != 0 && dfk != 0;
        static const char *const F[6] = {"{}|{>200}|{}", "{<70_*}{>130}", "{}", "[{>12}] [{<300_-}] {x}", "{}|{}|{&3}{&2}", "{&3}{}{&2}"};
        static const char *const CUTTEXT = "\xC3\xA9t\xC3\xA9";
        const char *f = !(op.fault & F_CORRUPT) ? F[fmt] : dfk == 0 ? "{}|{>20}|{}|{}|{}" : dfk == 1 ? "{}|{.1}|{}" : dfk == 2 ? "{}|{.1}|{}|{}" : "{.4}{}{}{}";
        note_sig(c, op, std::string("obj=") + cl(x) + (wide ? ",wide" : file ? ",FILE" : ",narrow") + (exc ? ",exceptions" : "") + ",fmt=" + std::to_string(fmt) + (missing ? ",missing_arg" : "") + (cut ? ",cut_character" : ""));
        c.budget_bytes = x->model.size() * 16 + 4096;
        as_const(x);
        std::ostringstream os; std::wostringstream ws;
        if (exc) { os.exceptions(std::ios_base::badbit); ws.exceptions(std::ios_base::badbit); }
        // the owner's formatting state (as std::cerr or a log stream carries it)
        if (op.c & 1) { os.setf(std::ios_base::unitbuf); ws.setf(std::ios_base::unitbuf); }
        if (op.c & 2) { os.setf(std::ios_base::hex, std::ios_base::basefield); ws.setf(std::ios_base::showbase | std::ios_base::uppercase); }
        if (op.c & 4) { os.precision(3); ws.precision(9); os.fill('.'); ws.fill(L'_'); }
        const auto fl8 = os.flags(); const auto flw = ws.flags(); const auto pr8 = os.precision(), prw = ws.precision(); const char fi8 = os.fill(); const wchar_t fiw = ws.fill();
        char *mbuf = nullptr; size_t mlen = 0; FILE *fp = file ? open_memstream(&mbuf, &mlen) : nullptr;
        // text arguments of strictly increasing length (formats 4 and 5): each text fragment of one call is longer than every earlier one
        TempStr twice(x->model + x->model), thrice(x->model + x->model + x->model + "!");
        ExcKind ex = run_sut(c, op, [&] {
            const S &s = *x->p();
            if (cut) { if (file) { if (fp) { if (dfk == 3) ST::printf(fp, f, CUTTEXT, s, *thrice.p); else ST::printf(fp, f, s, CUTTEXT, *thrice.p); } }
                       else if (wide) { if (dfk == 3) ST::writef(ws, f, CUTTEXT, s, *thrice.p); else ST::writef(ws, f, s, CUTTEXT, *thrice.p); }
                       else { if (dfk == 3) ST::writef(os, f, CUTTEXT, s, *thrice.p); else ST::writef(os, f, s, CUTTEXT, *thrice.p); } }
            else if (file) { if (fp) { if (fmt >= 4 || missing) ST::printf(fp, f, s, *twice.p, *thrice.p); else ST::printf(fp, f, s, op.c, s); } }
            else if (fmt >= 4 || missing) { if (wide) ST::writef(ws, f, s, *twice.p, *thrice.p); else ST::writef(os, f, s, *twice.p, *thrice.p); }
            else if (wide) { ST::writef(ws, f, s, op.c, s); ws << s; } else { ST::writef(os, f, s, op.c, s); os << s; }
        });
        // reported through the stream by the standard library (badbit); with exceptions(badbit) libstdc++ rethrows the *original* exception, so even
        // then it is std::bad_alloc that reaches the caller - std::ios_base::failure in its place is somebody else's doing
        // (with both faults at once the swallowed allocation failure shows as badbit and the call goes on to throw for the missing argument)
        if (c.fired && (ex == EX_NONE || (missing && ex == EX_OUT_OF_RANGE) || (cut && ex == EX_UNICODE)) && !file && (wide ? ws.bad() : os.bad())) ex = EX_BAD_ALLOC;
        bool state_kept = os.flags() == fl8 && ws.flags() == flw && os.precision() == pr8 && ws.precision() == prw && os.fill() == fi8 && ws.fill() == fiw;
        bool unlocked = true;
        if (fp) { std::thread other([&] { if (ftrylockfile(fp) == 0) funlockfile(fp); else unlocked = false; }); other.join(); if (unlocked) std::fclose(fp); std::free(mbuf); }
        // the stream is the caller's and its buffer never failed: unless an allocation failed it is as good as before, and the next output arrives
        bool usable = true;
        if (!file && !c.fired) {
            os.exceptions(std::ios_base::goodbit); ws.exceptions(std::ios_base::goodbit);
            usable = wide ? ws.rdstate() == std::ios_base::goodbit : os.rdstate() == std::ios_base::goodbit;
            if (usable) {
                const size_t before = wide ? ws.str().size() : os.str().size(); bool arrived = false;
                run_quiet([&] { simrt::SutScope sut; try { if (wide) { ST::writef(ws, "<{}>", 42); arrived = ws.str().size() == before + 4 && ws.str().compare(before, 4, L"<42>") == 0; }
                                                               else { ST::writef(os, "<{}>", 42); arrived = os.str().size() == before + 4 && os.str().compare(before, 4, "<42>") == 0; } } catch (...) { } });
                usable = arrived;
            }
        }
        settle(c, op, ex, (missing ? bit(EX_OUT_OF_RANGE) : 0) | (cut && wide ? bit(EX_UNICODE) : 0));
        if (!usable && !c.viol.set) set_viol(c, "state_changed_after_throw", ex == EX_NONE ? "the stream is not good() after a call that succeeded, or does not deliver the next output" : "after the call threw, the caller's stream has an error state it did not have before (its buffer never failed), or does not deliver the next output");
        if (!state_kept) set_viol(c, "state_changed_after_throw", ex == EX_NONE ? "the stream's formatting state (flags / precision / fill) is not what it was before the call" : "after the call threw, the stream's formatting state (flags / precision / fill) is not what it was before");
        else if (!unlocked) set_viol(c, "state_changed_after_throw", "the FILE* is still locked by the calling thread after ST::printf returned or threw");
        return true;
    }
    case S_OSTREAM: {
        StrObj *x = pick_str_wf(c, op.a);
        if (!x) { c.skipped = true; return true; }
        bool wide = op.b & 1;
        note_sig(c, op, std::string("obj=") + cl(x) + (wide ? ",wide" : ",narrow"));
        c.budget_bytes = x->model.size() * 8;
        as_const(x);
        Scalars sc; decode_utf8_strict(x->model, sc);
        std::ostringstream os; std::wostringstream ws;
        // libstdc++ swallows exceptions thrown inside its formatted insertion and sets badbit instead: with an allocation fault the
        // failure must reach the caller one way or the other (std::bad_alloc from string_theory's own part, or badbit from the stream)
        ExcKind ex = run_sut(c, op, [&] { if (wide) ws << *x->p(); else os << *x->p(); });
        if (c.fired && ex == EX_NONE && (wide ? ws.bad() : os.bad())) ex = EX_BAD_ALLOC;
        Op o2 = op;
        settle(c, o2, ex, 0);
        if (ex == EX_NONE) {
            bool ok = wide ? ws.str() == std::wstring(sc.begin(), sc.end()) : os.str() == x->model;
            if (!ok) set_viol(c, "value_mismatch", "stream insertion wrote something other than the string's contents");
        }
        return true;
    }
    // ------------------------------------------------------------ string-valued const operations (result joins the pool)
    case S_SUBSTR: {
        StrObj *x = pick(v, op.a);
        if (!x) { c.skipped = true; return true; }
        size_t sz = x->model.size();
        size_t st = resolve_code(op.b, sz); if (st == ST_AUTO_SIZE) st = 0;
        size_t cnt = resolve_code(op.c, sz);
        unsigned which = (op.d >> 1) & 3; bool neg = op.d & 1;
        if (cnt != ST_AUTO_SIZE && cnt > 2 * sz + 2) cnt = 2 * sz + 2;          // C08 hazard: start+count must not wrap
        ST_ssize_t sst = neg ? -(ST_ssize_t)st : (ST_ssize_t)st;
        bool all = cnt == ST_AUTO_SIZE || cnt >= sz, from0 = (!neg && st == 0) || (neg && st >= sz);
        bool whole = (which == 0 && from0 && all) || (which == 1 && all) || (which == 2 && (cnt == ST_AUTO_SIZE || cnt == sz)) || (which == 3 && from0);
        // one call in four is made on an expiring copy of the receiver - std::move(t).substr(...): where a member has an rvalue-qualified twin that
        // may reuse the receiver's storage, that twin runs; the result joins the pool and is judged like any other, the copy dies at once
        const bool expiring = ((op.d >> 3) & 3) == 0;
        note_sig(c, op, std::string("obj=") + cl(x) + ",which=" + std::to_string(which) + (whole ? ",whole" : "") + (expiring ? ",rvalue" : ""));
        c.budget_bytes = sz * 2;
        as_const(x);
        if (whole) probe(c, PR_RESULT_EQUALS_SOURCE);
        void *mem = obj_alloc(sizeof(S));
        ExcKind ex = run_sut(c, op, [&] {
            if (expiring) {
                S t(*x->p());
                switch (which) {
                case 0: FRESH(S, std::move(t).substr(sst, cnt)); break;
                case 1: FRESH(S, std::move(t).left(cnt == ST_AUTO_SIZE ? sz : cnt)); break;
                case 2: FRESH(S, std::move(t).right(cnt == ST_AUTO_SIZE ? sz : cnt)); break;
                default: FRESH(S, std::move(t).substr(sst)); break;
                }
                return;
            }
            const S &s = *x->p();
            switch (which) {
            case 0: FRESH(S, s.substr(sst, cnt)); break;
            case 1: FRESH(S, s.left(cnt == ST_AUTO_SIZE ? sz : cnt)); break;
            case 2: FRESH(S, s.right(cnt == ST_AUTO_SIZE ? sz : cnt)); break;
            default: FRESH(S, s.substr(sst)); break;
            }
        });
        if (settle(c, op, ex, 0)) new_str_result(c, mem, x); else obj_free(mem);
        return true;
    }
    case S_TRIM: {
        StrObj *x = pick(v, op.a);
        if (!x) { c.skipped = true; return true; }
        unsigned which = op.b % 3; const char *cs = CHARSETS[op.c % (sizeof CHARSETS / sizeof CHARSETS[0])];
        bool dflt = (op.c % 7) == 0 && (op.b & 4);
        note_sig(c, op, std::string("obj=") + cl(x) + ",which=" + std::to_string(which));
        c.budget_bytes = x->model.size() * 8;
        as_const(x);
        const std::string &m = x->model;
        bool nothing = m.empty() || (!std::strchr(cs, m.front()) && !std::strchr(cs, m.back()));
        if (nothing && !m.empty() && m.front() && m.back()) probe(c, PR_RESULT_EQUALS_SOURCE);
        void *mem = obj_alloc(sizeof(S));
        const bool rv = (op.b & 0x18) == 0x18;      // rvalue receiver, see S_CASE
        if (rv) { x->role = ROLE_NONE; as_rvalue(x); note_mutating(c, x); }
        ExcKind ex = run_sut(c, op, [&] {
            const S &s = *x->p();
            if (rv) { switch (which) { case 0: FRESH(S, std::move(*x->p()).trim(cs)); break; case 1: FRESH(S, std::move(*x->p()).trim_left(cs)); break; default: FRESH(S, std::move(*x->p()).trim_right(cs)); break; } return; }
            switch (which) {
            case 0: FRESH(S, dflt ? s.trim() : s.trim(cs)); break;
            case 1: FRESH(S, dflt ? s.trim_left() : s.trim_left(cs)); break;
            default: FRESH(S, dflt ? s.trim_right() : s.trim_right(cs)); break;
            }
        });
        if (settle(c, op, ex, 0)) { new_str_result(c, mem, rv ? nullptr : x); if (rv) { x->st = M_ADOPT; x->moved_from = true; } } else obj_free(mem);
        return true;
    }
    case S_BEFORE_AFTER: {
        StrObj *x = pick(v, op.a);
        if (!x) { c.skipped = true; return true; }
        unsigned which = op.c % 4, ov = op.d % 3, ci = (op.d >> 2) & 1, form = (op.d >> 3) & 3;
        Needle n; make_needle(c, x, op.b, ov == 0 ? 2 : form, true, ov == 1, n);
        note_sig(c, op, std::string("obj=") + cl(x) + ",which=" + std::to_string(which) + ",ov=" + std::to_string(ov) + (n.pool == x ? ",self" : ""));
        c.budget_bytes = x->model.size() * (1 + std::min<size_t>(n.bytes.size(), 16)) * 2 + 4 * n.bytes.size();
        as_const(x); if (n.pool) as_const(n.pool);
        if (n.pool == x) probe(c, PR_SELF_REFERENTIAL);
        if (x->model.find(n.bytes) == std::string::npos && !ci && (which == 0 || which == 3)) probe(c, PR_RESULT_EQUALS_SOURCE);
        ST::case_sensitivity_t cs = ci ? ST::case_insensitive : ST::case_sensitive;
        std::unique_ptr<TempStr> tmp; if (ov == 2 && !n.pool) tmp.reset(new TempStr(n.bytes));
        const S &ns = n.pool ? *n.pool->p() : tmp ? *tmp->p : *x->p();
        void *mem = obj_alloc(sizeof(S));
        ExcKind ex = run_sut(c, op, [&] {
            const S &s = *x->p();
#define BA(fn) do { if (ov == 0) FRESH(S, s.fn(n.bytes[0], cs)); else if (ov == 1) FRESH(S, s.fn(n.bytes.c_str(), cs)); else FRESH(S, s.fn(ns, cs)); } while (0)
            switch (which) {
            case 0: BA(before_first); break;
            case 1: BA(after_first); break;
            case 2: BA(before_last); break;
            default: BA(after_last); break;
            }
#undef BA
        });
        if (settle(c, op, ex, 0)) new_str_result(c, mem, x); else obj_free(mem);
        return true;
    }
    case S_CASE: {
        StrObj *x = pick(v, op.a);
        if (!x) { c.skipped = true; return true; }
        // (op.b & 6) == 6: the receiver is handed over as an rvalue - std::move(s).to_upper().  An rvalue-qualified overload may consume the receiver
        // (then it is a move applied to that object: valid, value unspecified), but what comes back must still be a value, not a reference into it
        const bool rv = (op.b & 6) == 6;
        note_sig(c, op, std::string("obj=") + cl(x) + (rv ? ",rvalue_receiver" : ""));
        c.budget_bytes = x->model.size() * 4;
        if (rv) { as_rvalue(x); note_mutating(c, x); } else as_const(x);
        void *mem = obj_alloc(sizeof(S));
        ExcKind ex = run_sut(c, op, [&] {
            if (rv) { if (op.b & 1) FRESH(S, std::move(*x->p()).to_upper()); else FRESH(S, std::move(*x->p()).to_lower()); }
            else FRESH(S, (op.b & 1) ? x->p()->to_upper() : x->p()->to_lower());
        });
        if (settle(c, op, ex, 0)) { new_str_result(c, mem, rv ? nullptr : x); if (rv) { x->st = M_ADOPT; x->moved_from = true; } } else obj_free(mem);
        return true;
    }
    case S_REPLACE: {
        StrObj *x = pick(v, op.a);
        if (!x) { c.skipped = true; return true; }
        unsigned ov = op.d & 3, ci = (op.d >> 2) & 1, ff = (op.d >> 3) & 3, tf = (op.d >> 5) & 3;
        bool from_c = ov == 0 || ov == 2, to_c = ov == 0 || ov == 1;      // 0 (c,c) 1 (s,c) 2 (c,s) 3 (s,s)
        Needle from, to;
        make_needle(c, x, op.b, ff, false, from_c, from);
        make_needle(c, x, op.c, tf == 1 ? 3 : tf, false, to_c, to);
        bool corrupt = (op.fault & F_CORRUPT) != 0;
        if (corrupt && (from_c || to_c)) { if (to_c) { corrupt_units<char>(to.bytes, op.fc); to.bytes = to.bytes.substr(0, to.bytes.find('\0')); to.pool = nullptr; }
                                             else { corrupt_units<char>(from.bytes, op.fc); from.bytes = from.bytes.substr(0, from.bytes.find('\0')); from.pool = nullptr; } }
        bool args_wf = (!from_c || strict_utf8(from.bytes.data(), from.bytes.size())) && (!to_c || strict_utf8(to.bytes.data(), to.bytes.size()));
        bool self = from.pool == x || to.pool == x;
        {   // predicted result size (replace is the one operation whose result can be quadratic in its operands)
            size_t k = 0;
            if (!from.bytes.empty()) {
                auto lower = [](std::string s) { for (auto &ch : s) if (ch >= 'A' && ch <= 'Z') ch += 32; return s; };
                std::string hay = ci ? lower(x->model) : x->model, nee = ci ? lower(from.bytes) : from.bytes;
                for (size_t p = hay.find(nee); p != std::string::npos; p = hay.find(nee, p + nee.size())) ++k;
            }
            if (x->model.size() + k * to.bytes.size() > MAX_OPERAND_BYTES) { c.skipped = true; return true; }
        }
        note_sig(c, op, std::string("obj=") + cl(x) + ",ov=" + std::to_string(ov) + (self ? ",self" : "") + (args_wf ? "" : ",invalid"));
        c.budget_bytes = (x->model.size() + 1) * (2 + std::min<size_t>(from.bytes.size(), 16)) + (x->model.size() + 1) * to.bytes.size() + 4 * (from.bytes.size() + to.bytes.size());
        as_const(x); if (from.pool) as_const(from.pool); if (to.pool) as_const(to.pool);
        if (self) probe(c, PR_SELF_REFERENTIAL);
        if (!ci && (from.bytes.empty() || x->model.find(from.bytes) == std::string::npos)) probe(c, PR_RESULT_EQUALS_SOURCE);
        ST::case_sensitivity_t cs = ci ? ST::case_insensitive : ST::case_sensitive;
        std::unique_ptr<TempStr> tf_, tt_;
        if (!from_c && !from.pool) tf_.reset(new TempStr(from.bytes));
        if (!to_c && !to.pool) tt_.reset(new TempStr(to.bytes));
        const S &fs = from.pool ? *from.pool->p() : tf_ ? *tf_->p : *x->p();
        const S &ts = to.pool ? *to.pool->p() : tt_ ? *tt_->p : *x->p();
        void *mem = obj_alloc(sizeof(S));
        ExcKind ex = run_sut(c, op, [&] {
            const S &s = *x->p();
            switch (ov) {
            case 0: FRESH(S, s.replace(from.bytes.c_str(), to.bytes.c_str(), cs)); break;
            case 1: FRESH(S, s.replace(fs, to.bytes.c_str(), cs)); break;
            case 2: FRESH(S, s.replace(from.bytes.c_str(), ts, cs)); break;
            default: FRESH(S, s.replace(fs, ts, cs)); break;
            }
        });
        if (settle(c, op, ex, args_wf ? 0 : bit(EX_UNICODE))) new_str_result(c, mem, x); else obj_free(mem);
        return true;
    }
    case S_SPLIT: {
        StrObj *x = pick(v, op.a);
        if (!x) { c.skipped = true; return true; }
        unsigned ov = op.d % 3, ci = (op.d >> 2) & 1, form = (op.d >> 3) & 3;
        Needle n; make_needle(c, x, op.b, ov == 0 ? 2 : form, true, ov != 2, n);
        if (n.bytes.empty() || (ov != 2 && n.bytes[0] == 0)) n.bytes = "-", n.pool = nullptr;
        bool corrupt = (op.fault & F_CORRUPT) && ov == 1;
        if (corrupt) { n.bytes = std::string("\xC3"); n.pool = nullptr; }        // splitter with a high byte: pieces are re-validated
        vec_make_room(c);
        size_t maxs = resolve_code(op.c, 3);
        bool pieces_may_throw = ov == 1 && !(strict_utf8(x->model.data(), x->model.size()) && strict_utf8(n.bytes.data(), n.bytes.size()));
        note_sig(c, op, std::string("obj=") + cl(x) + ",ov=" + std::to_string(ov) + (n.pool == x ? ",self" : "") + (corrupt ? ",corrupted" : ""));
        c.budget_bytes = (x->model.size() + 1) * (40 + std::min<size_t>(n.bytes.size(), 16)) + 4 * n.bytes.size();
        as_const(x); if (n.pool) as_const(n.pool);
        if (n.pool == x) probe(c, PR_SELF_REFERENTIAL);
        if (op.fault & F_ALLOC) probe(c, PR_FAULT_VECTOR_GROWTH);
        ST::case_sensitivity_t cs = ci ? ST::case_insensitive : ST::case_sensitive;
        std::unique_ptr<TempStr> tmp; if (ov == 2 && !n.pool) tmp.reset(new TempStr(n.bytes));
        const S &ns = n.pool ? *n.pool->p() : tmp ? *tmp->p : *x->p();
        void *mem = obj_alloc(sizeof(std::vector<S>));
        bool dflt = maxs == ST_AUTO_SIZE;
        ExcKind ex = run_sut(c, op, [&] {
            const S &s = *x->p();
            switch (ov) {
            case 0: new (mem) std::vector<S>(dflt ? s.split(n.bytes[0]) : s.split(n.bytes[0], maxs, cs)); break;
            case 1: new (mem) std::vector<S>(dflt ? s.split(n.bytes.c_str()) : s.split(n.bytes.c_str(), maxs, cs)); break;
            default: new (mem) std::vector<S>(dflt ? s.split(ns) : s.split(ns, maxs, cs)); break;
            }
        });
        if (settle(c, op, ex, pieces_may_throw ? bit(EX_UNICODE) : 0)) { VecObj *o = add_vec(c, mem); o->role = ROLE_NEW; o->st = M_ADOPT; o->parent = x->serial; }
        else obj_free(mem);
        return true;
    }
    case S_TOKENIZE: {
        StrObj *x = pick(v, op.a);
        if (!x) { c.skipped = true; return true; }
        vec_make_room(c);
        const char *cs = CHARSETS[op.b % (sizeof CHARSETS / sizeof CHARSETS[0])];
        bool dflt = (op.b % 7) == 0 && (op.b & 8);
        note_sig(c, op, std::string("obj=") + cl(x));
        c.budget_bytes = (x->model.size() + 1) * 60;
        as_const(x);
        if (op.fault & F_ALLOC) probe(c, PR_FAULT_VECTOR_GROWTH);
        void *mem = obj_alloc(sizeof(std::vector<S>));
        ExcKind ex = run_sut(c, op, [&] { new (mem) std::vector<S>(dflt ? x->p()->tokenize() : x->p()->tokenize(cs)); });
        if (settle(c, op, ex, 0)) { VecObj *o = add_vec(c, mem); o->role = ROLE_NEW; o->st = M_ADOPT; o->parent = x->serial; } else obj_free(mem);
        return true;
    }
    case S_PLUS: {
        StrObj *x = pick(v, op.a);
        if (!x) { c.skipped = true; return true; }
        static const unsigned K[] = {SK_CSTR, SK_W, SK_16, SK_32, SK_C8, SK_STR_COPY, SK_NULL};
        TextArg A;
        unsigned k = K[(op.d & 0xFF) % 7];
        if (!prepare_text(c, op, k, op.b, op.c, 0, true, A)) { c.skipped = true; return true; }
        bool left = (op.d >> 8) & 1;       // text + string instead of string + text
        bool self = A.pool_obj == x;
        // the string operand handed over as an rvalue - std::move(s) + text: an rvalue overload may consume it when the call succeeds (a move applied to
        // that object), but after a call that threw it must hold what it held
        const bool rv = ((op.d >> 9) & 3) == 3 && !self;
        const bool deduced = !rv && ((op.d >> 11) & 3) == 3;
        note_sig(c, op, std::string(A.kind_name()) + ",obj=" + cl(x) + ",in=" + A.cls + (left ? ",left" : "") + (self ? ",self" : "") + (A.wf ? "" : ",invalid") + (rv ? ",rvalue_operand" : "") + (deduced ? ",deduced" : ""));
        c.budget_bytes = (A.in_bytes + x->model.size()) * 3;
        if (rv) { as_rvalue(x); note_mutating(c, x); } else as_const(x);
        if (A.pool_obj) as_const(A.pool_obj);
        if (self) probe(c, PR_SELF_REFERENTIAL);
        std::string expect = left ? A.expect + x->model : x->model + A.expect;
        void *mem = obj_alloc(sizeof(S));
        ExcKind ex = run_sut(c, op, [&] {
            with_arg(A, [&](auto &&a, auto &&...) {
                if (deduced) {
                    // the type of the sum is deduced and the string operand is gone before the sum is first used: whatever `+` returns must own its value
                    std::unique_ptr<S> tmp(new S(*x->p()));
                    auto r = left ? (std::forward<decltype(a)>(a) + *tmp) : (*tmp + std::forward<decltype(a)>(a));
                    tmp.reset();
                    new (mem) S(std::move(r));
                    return;
                }
                if (rv) { if (left) new (mem) S(std::forward<decltype(a)>(a) + std::move(*x->p())); else new (mem) S(std::move(*x->p()) + std::forward<decltype(a)>(a)); }
                else if (left) new (mem) S(std::forward<decltype(a)>(a) + *x->p()); else new (mem) S(*x->p() + std::forward<decltype(a)>(a));
            });
        });
        if (ex != EX_NONE && ex != EX_BAD_ALLOC && x->model.size() >= 16) probe(c, PR_THROW_WITH_HEAP_TARGET);
        if (settle(c, op, ex, A.wf ? 0 : bit(EX_UNICODE))) { StrObj *o = new_str_result(c, mem, rv ? nullptr : x); if (A.wf) { o->st = M_DEFINITE; o->model = expect; } if (rv) { x->st = M_ADOPT; x->moved_from = true; } }
        else obj_free(mem);
        return true;
    }
    case S_PLUS_CH: {
        StrObj *x = pick(v, op.a);
        if (!x) { c.skipped = true; return true; }
        unsigned w = op.c % 4; bool left = (op.c >> 2) & 1;
        char32_t cp = op.b;
        if (!(op.fault & F_CORRUPT)) { if (cp > 0x10FFFF) cp %= 0x110000; if (cp >= 0xD800 && cp <= 0xDFFF) cp = 0xE9; }
        else cp = (w == 1 || w == 3) && (op.fc & 1) ? 0x110000 + (op.fc >> 8) % 0x1000 : 0xD800 + (op.fc >> 8) % 0x800;
        if (w == 0) cp &= 0xFF; else if (w == 2) cp &= 0xFFFF;
        bool valid = cp <= 0x10FFFF && !(cp >= 0xD800 && cp <= 0xDFFF);
        const bool rv = ((op.c >> 3) & 3) == 3;        // std::move(s) + ch, see S_PLUS
        note_sig(c, op, std::string("w=") + std::to_string(w) + ",obj=" + cl(x) + (left ? ",left" : "") + (valid ? "" : ",invalid") + (rv ? ",rvalue_operand" : ""));
        c.budget_bytes = x->model.size() + 4;
        if (rv) { as_rvalue(x); note_mutating(c, x); } else as_const(x);
        const std::string xm = x->model;
        std::string add; { Scalars s(1, cp); if (valid) enc_utf8(s, add); }
        void *mem = obj_alloc(sizeof(S));
        ExcKind ex = run_sut(c, op, [&] {
            if (rv) {
                S &m = *x->p();
                switch (w) {
                case 0: if (left) new (mem) S((char)cp + std::move(m)); else new (mem) S(std::move(m) + (char)cp); break;
                case 1: if (left) new (mem) S((wchar_t)cp + std::move(m)); else new (mem) S(std::move(m) + (wchar_t)cp); break;
                case 2: if (left) new (mem) S((char16_t)cp + std::move(m)); else new (mem) S(std::move(m) + (char16_t)cp); break;
                default: if (left) new (mem) S((char32_t)cp + std::move(m)); else new (mem) S(std::move(m) + (char32_t)cp); break;
                }
                return;
            }
            const S &s = *x->p();
            switch (w) {
            case 0: if (left) new (mem) S((char)cp + s); else new (mem) S(s + (char)cp); break;
            case 1: if (left) new (mem) S((wchar_t)cp + s); else new (mem) S(s + (wchar_t)cp); break;
            case 2: if (left) new (mem) S((char16_t)cp + s); else new (mem) S(s + (char16_t)cp); break;
            default: if (left) new (mem) S((char32_t)cp + s); else new (mem) S(s + (char32_t)cp); break;
            }
        });
        if (settle(c, op, ex, valid ? 0 : bit(EX_UNICODE))) { StrObj *o = new_str_result(c, mem, rv ? nullptr : x); if (valid) { o->st = M_DEFINITE; o->model = left ? add + xm : xm + add; } if (rv) { x->st = M_ADOPT; x->moved_from = true; } }
        else obj_free(mem);
        return true;
    }
    case S_TO_BUF: {
        unsigned which = op.b % 6;
        StrObj *x = which == 0 ? pick(v, op.a) : ((op.b >> 8) & 3) == 0 ? pick_str_nohazard(c, op.a) : pick_str_wf(c, op.a);
        if (!x) { c.skipped = true; return true; }
        const bool xwf = strict_utf8(x->model.data(), x->model.size());      // malformed receiver: the result is adopted (what the conversion makes of it is C02/C03's business)
        note_sig(c, op, std::string("obj=") + cl(x) + ",which=" + std::to_string(which) + ((which && !xwf) ? ",malformed" : ""));
        c.budget_bytes = x->model.size() * 8;
        as_const(x);
        Scalars sc; if (which && xwf) decode_utf8_strict(x->model, sc);
        bool lat_ok = true; std::string lat; for (char32_t ch : sc) { if (ch >= 0x100) { lat_ok = false; lat += '?'; } else lat += (char)ch; }
        if (which == 0) probe(c, PR_RESULT_EQUALS_SOURCE);
        void *mem = nullptr;
        ExcKind ex;
        switch (which) {
        case 0: case 4: case 5: {
            buf_make_room<char>(c); mem = obj_alloc(sizeof(ST::char_buffer));
            ex = run_sut(c, op, [&] { if (which == 0) FRESH(ST::char_buffer, x->p()->to_utf8()); else FRESH(ST::char_buffer, x->p()->to_latin_1(which == 4)); });
            if (settle(c, op, ex, ((which == 5 && !lat_ok) || (which && !xwf)) ? bit(EX_UNICODE) : 0)) { auto *o = add_buf<char>(c, mem); o->role = ROLE_NEW; o->parent = x->serial; if (which && !xwf) o->st = M_ADOPT; else o->model = which == 0 ? x->model : lat; }
            else obj_free(mem);
            break;
        }
        case 1: {
            buf_make_room<char16_t>(c); mem = obj_alloc(sizeof(ST::utf16_buffer));
            ex = run_sut(c, op, [&] { FRESH(ST::utf16_buffer, x->p()->to_utf16()); });
            if (settle(c, op, ex, xwf ? 0 : bit(EX_UNICODE))) { auto *o = add_buf<char16_t>(c, mem); o->role = ROLE_NEW; o->parent = x->serial; if (xwf) enc_utf16(sc, o->model); else o->st = M_ADOPT; } else obj_free(mem);
            break;
        }
        case 2: {
            buf_make_room<char32_t>(c); mem = obj_alloc(sizeof(ST::utf32_buffer));
            ex = run_sut(c, op, [&] { FRESH(ST::utf32_buffer, x->p()->to_utf32()); });
            if (settle(c, op, ex, xwf ? 0 : bit(EX_UNICODE))) { auto *o = add_buf<char32_t>(c, mem); o->role = ROLE_NEW; o->parent = x->serial; if (xwf) o->model = sc; else o->st = M_ADOPT; } else obj_free(mem);
            break;
        }
        default: {
            buf_make_room<wchar_t>(c); mem = obj_alloc(sizeof(ST::wchar_buffer));
            ex = run_sut(c, op, [&] { FRESH(ST::wchar_buffer, x->p()->to_wchar()); });
            if (settle(c, op, ex, xwf ? 0 : bit(EX_UNICODE))) { auto *o = add_buf<wchar_t>(c, mem); o->role = ROLE_NEW; o->parent = x->serial; if (xwf) o->model.assign(sc.begin(), sc.end()); else o->st = M_ADOPT; } else obj_free(mem);
            break;
        }
        }
        return true;
    }
    case S_TO_BUFFER_INTO: {
        unsigned which = op.c % 8, vmode = (op.c >> 4) % 3;      // 6, 7: the deprecated (buffer, utf8, utf_validation_t) spelling, UTF-8 / Latin-1
        static const ST::utf_validation_t VM[] = {ST::check_validity, ST::substitute_invalid, ST::assume_valid};
        StrObj *x = which == 6 ? pick_str_nohazard(c, op.a) : which == 0 ? pick(v, op.a) : pick_str_wf(c, op.a);      // (6: a malformed receiver if the pool has one)
        if (!x) { c.skipped = true; return true; }
        Scalars sc; if (which) decode_utf8_strict(x->model, sc);
        bool lat_ok = true; std::string lat; for (char32_t ch : sc) { if (ch >= 0x100) { lat_ok = false; lat += '?'; } else lat += (char)ch; }
        note_sig(c, op, std::string("obj=") + cl(x) + ",which=" + std::to_string(which) + (which >= 6 ? ",mode=" + std::to_string(vmode) : std::string()));
        c.budget_bytes = x->model.size() * 8;
        as_const(x);
        ExcKind ex;
        switch (which) {
        case 6: case 7: {
            BufObj<char> *d = pick(c.b8, op.b); if (!d) { c.skipped = true; return true; }
            as_target(d); note_mutating(c, d);
            _Pragma("GCC diagnostic push") _Pragma("GCC diagnostic ignored \"-Wdeprecated-declarations\"")
            ex = run_sut(c, op, [&] { x->p()->to_buffer(*d->p(), which == 6, VM[vmode]); });
            _Pragma("GCC diagnostic pop")
            // UTF-8: a copy of the stored bytes, whatever they are (today the mode is ignored; a version that honoured it could only throw
            // for a malformed receiver in checking mode - then the caller's buffer must be what it was). Latin-1: as the (bool, bool) spelling.
            bool malformed = !strict_utf8(x->model.data(), x->model.size());
            unsigned allowed = which == 6 ? ((malformed && vmode == 0) ? bit(EX_UNICODE) : 0) : ((vmode != 1 && !lat_ok) ? bit(EX_UNICODE) : 0);
            if (settle(c, op, ex, allowed)) { if (which == 6 && malformed && vmode == 1) d->st = M_ADOPT; else d->model = which == 6 ? x->model : lat; d->moved_from = false; }
            break;
        }
        case 0: case 4: case 5: {
            BufObj<char> *d = pick(c.b8, op.b); if (!d) { c.skipped = true; return true; }
            as_target(d); note_mutating(c, d);
            ex = run_sut(c, op, [&] { if (which == 0) x->p()->to_buffer(*d->p()); else x->p()->to_buffer(*d->p(), false, which == 4); });
            if (settle(c, op, ex, (which == 5 && !lat_ok) ? bit(EX_UNICODE) : 0)) { d->model = which == 0 ? x->model : lat; d->moved_from = false; }
            break;
        }
        case 1: {
            BufObj<char16_t> *d = pick(c.b16, op.b); if (!d) { c.skipped = true; return true; }
            as_target(d);
            ex = run_sut(c, op, [&] { x->p()->to_buffer(*d->p()); });
            if (settle(c, op, ex, 0)) { enc_utf16(sc, d->model); d->moved_from = false; }
            break;
        }
        case 2: {
            BufObj<char32_t> *d = pick(c.b32, op.b); if (!d) { c.skipped = true; return true; }
            as_target(d);
            ex = run_sut(c, op, [&] { x->p()->to_buffer(*d->p()); });
            if (settle(c, op, ex, 0)) { d->model = sc; d->moved_from = false; }
            break;
        }
        default: {
            BufObj<wchar_t> *d = pick(c.bw, op.b); if (!d) { c.skipped = true; return true; }
            as_target(d);
            ex = run_sut(c, op, [&] { x->p()->to_buffer(*d->p()); });
            if (settle(c, op, ex, 0)) { d->model.assign(sc.begin(), sc.end()); d->moved_from = false; }
            break;
        }
        }
        return true;
    }
    case S_FORMAT: {
        StrObj *x = pick(v, op.a), *y = pick(v, op.b);
        if (!x) { c.skipped = true; return true; }
        unsigned fi = op.c % (sizeof FORMATS / sizeof FORMATS[0]), var = op.d % 12;
        const char *fmt = FORMATS[fi];
        bool corrupt = (op.fault & F_CORRUPT) != 0;
        static const char *const BADF[] = {"{", "{} {", "{z}", "{&9}", "{} {} {}", "}{", "{.}", "{_"};
        // var 9 / 10: a wide argument of 70-100 units (its UTF-8 form outgrows any small in-object block); under a data fault the *argument* is malformed, not the format string
        std::u16string w16; std::u32string w32;
        const bool wide_arg = var == 9 || var == 10;
        if (wide_arg) {
            w16 = take_units<char16_t>(c, op.a * 31 + 7, 70 + op.b % 30); w32 = take_units<char32_t>(c, op.a * 31 + 7, 70 + op.b % 30);
            if (corrupt) { corrupt_units<char16_t>(w16, op.fc); corrupt_units<char32_t>(w32, op.fc); }
            w16 = w16.substr(0, w16.find(char16_t(0))); w32 = w32.substr(0, w32.find(char32_t(0)));
        }
        if (corrupt && !wide_arg) fmt = BADF[(op.fc & 0xFF) % (sizeof BADF / sizeof BADF[0])];
        bool ascii = var != 4 && var != 5 && var != 9 && var != 10; for (unsigned char ch : x->model) if (ch >= 0x80) ascii = false; for (unsigned char ch : y->model) if (ch >= 0x80) ascii = false;
        bool wf = strict_utf8(x->model.data(), x->model.size()) && strict_utf8(y->model.data(), y->model.size());
        bool prec = std::strchr(fmt, '.') != nullptr;
        note_sig(c, op, std::string("obj=") + cl(x) + ",arg2=" + cl(y) + ",fmt=" + std::to_string(fi) + (corrupt ? ",corrupted" : "") + (x == y ? ",self" : ""));
        c.budget_bytes = (x->model.size() + y->model.size()) * 6 + 64;
        as_const(x); as_const(y);
        if (x == y) probe(c, PR_SELF_REFERENTIAL);
        if (fi == 0) probe(c, PR_RESULT_EQUALS_SOURCE);
        if (op.fault & F_ALLOC) probe(c, PR_FAULT_STD_FUNCTION);
        unsigned allowed = 0;
        if (corrupt && !wide_arg) allowed |= bit(EX_BAD_FORMAT) | bit(EX_OUT_OF_RANGE);
        if (wide_arg) { Scalars sc; if (corrupt || prec) allowed |= bit(EX_UNICODE); (void)sc; }
        if (var == 11) allowed |= bit(EX_OTHER);          // the user formatter's own exception (when the format string reaches the second argument)
        if (!wf || (prec && !ascii)) allowed |= bit(EX_UNICODE);      // a precision may cut a multi-byte character
        void *mem = obj_alloc(sizeof(S));
        ExcKind ex = run_sut(c, op, [&] {
            using namespace ST::literals;
            switch (var) {
            case 0: new (mem) S(ST::format(fmt, *x->p(), *y->p())); break;
            case 1: new (mem) S(ST::format(ST::check_validity, fmt, *x->p(), *y->p())); break;
            case 2: new (mem) S(operator"" _stfmt(fmt, std::strlen(fmt))(*x->p(), *y->p())); break;
            case 3: new (mem) S(ST::format(fmt, x->p()->c_str(), *y->p())); break;
            case 4: new (mem) S(ST::format(fmt, L"wide \u00e9\u20ac text, longer than the small limit", *y->p())); break;
            case 5: new (mem) S(ST::format(fmt, std::u16string(u"u16 \u00e9 string beyond sixteen units"), (int)op.c - 70000)); break;
            case 6: new (mem) S(ST::format(fmt, 3.25 + (double)(op.c % 1000), *x->p())); break;
            case 8: new (mem) S(ST::format(ST::substitute_invalid, fmt, *x->p(), *y->p())); break;
            case 9: new (mem) S(ST::format(fmt, w16, *y->p())); break;
            case 10: new (mem) S(ST::format(fmt, w32.c_str(), *x->p())); break;
            case 11: new (mem) S(ST::format(fmt, *x->p(), Thrower{(int)(op.b % 9)})); break;
            default: new (mem) S(ST::format_latin_1(fmt, *x->p(), *y->p())); break;
            }
        });
        if (ex != EX_NONE && ex != EX_BAD_ALLOC) { if (x->model.size() >= 16) probe(c, PR_THROW_WITH_HEAP_TARGET); }
        if (settle(c, op, ex, allowed)) new_str_result(c, mem, x); else obj_free(mem);
        return true;
    }
    case S_STFMT: {
        // a formatter object obtained from "..."_stfmt is kept and called repeatedly; after a call that threw it must
        // still behave like a fresh ST::format with the same format string
        StrObj *x = pick(v, op.a), *y = pick(v, op.b);
        if (!x) { c.skipped = true; return true; }
        unsigned slot = op.c % 4; const char *fmt = SLOT_FORMATS[slot];
        bool missing = (op.fault & F_CORRUPT) != 0;          // call with too few arguments: throws after producing some output
        bool wf = strict_utf8(x->model.data(), x->model.size()) && strict_utf8(y->model.data(), y->model.size());
        bool ascii = true; for (unsigned char ch : x->model) if (ch >= 0x80) ascii = false; for (unsigned char ch : y->model) if (ch >= 0x80) ascii = false;
        note_sig(c, op, std::string("slot=") + std::to_string(slot) + ",a1=" + cl(x) + ",a2=" + cl(y) + (missing ? ",missing_arg" : "") + (wf ? "" : ",invalid"));
        c.budget_bytes = (x->model.size() + y->model.size()) * 8 + 64;
        as_const(x); as_const(y);
        if (!c.fmt_slots[slot]) {
            void *fm = obj_alloc(sizeof(StoredFmt));
            run_quiet([&] { using namespace ST::literals; simrt::SutScope s; new (fm) StoredFmt(operator"" _stfmt(fmt, std::strlen(fmt))); });
            c.fmt_slots[slot] = fm;
        }
        StoredFmt &F = *static_cast<StoredFmt *>(c.fmt_slots[slot]);
        // reference: a fresh ST::format call with the same arguments (harness side, not subject to the fault plan)
        std::string want; bool want_ok = false;
        if (!missing) run_quiet([&] { simrt::SutScope s; try { S r = ST::format(fmt, *x->p(), *y->p()); want.assign(r.c_str(), r.size()); want_ok = true; } catch (...) { } });
        unsigned allowed = 0;
        if (missing) allowed |= bit(EX_OUT_OF_RANGE);
        if (!wf || (slot == 3 && !ascii)) allowed |= bit(EX_UNICODE);
        void *mem = obj_alloc(sizeof(S));
        ExcKind ex = run_sut(c, op, [&] { if (missing) new (mem) S(F(*x->p())); else new (mem) S(F(*x->p(), *y->p())); });
        if (settle(c, op, ex, allowed)) {
            StrObj *o = new_str_result(c, mem, x);
            if (!missing && want_ok) { o->st = M_DEFINITE; o->model = want; }
        } else {
            obj_free(mem);
            if (!missing && want_ok && ex != EX_BAD_ALLOC) set_viol(c, "state_changed_after_throw", "a stored _stfmt formatter threw for arguments a fresh ST::format call accepts (it was left in a bad state by an earlier failed call)");
        }
        return true;
    }
    case S_CODEC: {
        StrObj *x = pick(v, op.a);
        if (!x) { c.skipped = true; return true; }
        unsigned which = op.b % 4;
        note_sig(c, op, std::string("obj=") + cl(x) + ",which=" + std::to_string(which));
        c.budget_bytes = x->model.size() * 6;
        as_const(x);
        void *mem = obj_alloc(sizeof(S));
        ExcKind ex = run_sut(c, op, [&] {
            const S &s = *x->p();
            switch (which) {
            case 0: new (mem) S(ST::hex_encode(s.c_str(), s.size())); break;
            case 1: new (mem) S(ST::base64_encode(s.c_str(), s.size())); break;
            case 2: new (mem) S(ST::hex_encode(s.to_utf8())); break;
            default: new (mem) S(ST::base64_encode(s.to_utf8())); break;
            }
        });
        if (settle(c, op, ex, 0)) new_str_result(c, mem, x); else obj_free(mem);
        return true;
    }
    // ------------------------------------------------------------ vectors returned by split/tokenize
    case V_ELEM_COPY: case V_ELEM_MOVE: {
        VecObj *vo = pick(c.vecs, op.a);
        if (!vo || vo->model.empty()) { c.skipped = true; return true; }
        size_t i = op.b % vo->model.size();
        note_sig(c, op, std::string("elem=") + cls_letter(vo->model[i].size(), 16));
        c.budget_bytes = vo->model[i].size();
        bool mv = op.kind == V_ELEM_MOVE;
        if (mv) as_target(vo); else as_const(vo);
        std::string val = vo->model[i];
        void *mem = obj_alloc(sizeof(S));
        ExcKind ex = run_sut(c, op, [&] { if (mv) new (mem) S(std::move((*vo->p())[i])); else new (mem) S((*vo->p())[i]); });
        if (settle(c, op, ex, 0)) {
            StrObj *o = add_str(c, mem); o->role = ROLE_NEW; o->model = val;
            if (mv) { vo->st = M_ADOPT; c.touched_moved_from = true; }
        } else obj_free(mem);
        return true;
    }
    case V_ALGO: {
        // what generic code does with a std::vector<ST::string>: the standard algorithms and the vector's own modifiers turn into chains of move
        // constructions, move assignments, swaps and reads of moved-from elements that no hand-written sequence contains. The expected result is
        // the same algorithm applied to the byte strings of the model. (No allocation fault here: the vector's own guarantees under a failed
        // reallocation are the standard library's business.)
        VecObj *vo = pick(c.vecs, op.a);
        if (!vo || vo->st != M_DEFINITE || vo->model.empty() || vo->model.size() > 400) { c.skipped = true; return true; }
        typedef std::vector<std::string> MV;
        MV want = vo->model; const size_t n = want.size();
        const unsigned form = op.b % 10; const size_t i = op.c % n, j = op.d % n;
        static const char *const FN[] = {"reverse", "rotate", "sort", "unique", "erase_remove", "insert_self", "push_back_self", "swap_ranges", "erase", "stable_partition"};
        note_sig(c, op, std::string(FN[form]) + ",n=" + cls_letter(n, 16));
        size_t bytes = 0; for (auto &e : want) bytes += e.size() + 32;
        c.budget_bytes = bytes * (form == 2 ? 24 : 6);
        as_target(vo); note_mutating(c, vo);
        auto pred = [](const std::string &e) { return (e.size() & 1) != 0; };
        switch (form) {
        case 0: std::reverse(want.begin(), want.end()); break;
        case 1: std::rotate(want.begin(), want.begin() + (MV::difference_type)i, want.end()); break;
        case 2: std::sort(want.begin(), want.end()); break;
        case 3: want.erase(std::unique(want.begin(), want.end()), want.end()); break;
        case 4: { std::string key = want[i]; want.erase(std::remove(want.begin(), want.end(), key), want.end()); break; }
        case 5: { std::string e = want[j]; want.insert(want.begin() + (MV::difference_type)i, e); break; }
        case 6: { std::string e = want[j]; want.push_back(e); break; }
        case 7: std::swap_ranges(want.begin(), want.begin() + (MV::difference_type)(n / 2), want.begin() + (MV::difference_type)(n - n / 2)); break;
        case 8: want.erase(want.begin() + (MV::difference_type)i); break;
        default: std::stable_partition(want.begin(), want.end(), pred); break;
        }
        Op o2 = op; o2.fault &= ~F_ALLOC;
        ExcKind ex = run_sut(c, o2, [&] {
            std::vector<S> &v = *vo->p();
            typedef std::vector<S>::difference_type D;
            switch (form) {
            case 0: std::reverse(v.begin(), v.end()); break;
            case 1: std::rotate(v.begin(), v.begin() + (D)i, v.end()); break;
            case 2: std::sort(v.begin(), v.end()); break;
            case 3: v.erase(std::unique(v.begin(), v.end()), v.end()); break;
            case 4: { S key = v[i]; v.erase(std::remove(v.begin(), v.end(), key), v.end()); break; }
            case 5: v.insert(v.begin() + (D)i, v[j]); break;            // (the argument refers to an element of the vector itself: allowed)
            case 6: v.push_back(v[j]); break;                            // (likewise, across a reallocation)
            case 7: std::swap_ranges(v.begin(), v.begin() + (D)(n / 2), v.begin() + (D)(n - n / 2)); break;
            case 8: v.erase(v.begin() + (D)i); break;
            default: std::stable_partition(v.begin(), v.end(), [](const S &e) { return (e.size() & 1) != 0; }); break;
            }
        });
        if (settle(c, o2, ex, 0)) { vo->model = want; vo->elem_ptr.assign(want.size(), nullptr); vo->st = M_DEFINITE; }
        return true;
    }
    case V_DESTROY: {
        VecObj *vo = pick(c.vecs, op.a);
        if (!vo) { c.skipped = true; return true; }
        note_sig(c, op, "n=" + std::to_string(std::min<size_t>(vo->model.size(), 9)));
        note_destroying(c, vo);
        ExcKind ex = run_sut(c, op, [&] { vo->p()->~vector(); });
        obj_free(vo->mem); remove_obj(c, vo); delete vo;
        settle(c, op, ex, 0);
        return true;
    }
    default: return false;
    }
}

} // namespace A
