// Engine A: buffer<T> operations (C05, also used by C18/C19 histories).
#include "core.h"

namespace A {

template <class T> static void note_sig(Ctx &c, const Op &op, const char *extra) {
    c.site = std::string(op_name(op.kind)) + "<" + ET<T>::name() + ">(" + extra + ")";
    c.sig.u8((uint8_t)op.kind); c.sig.u8(op.t); c.sig.str(extra);
}
template <class T> static char cl(const BufObj<T> *o) { return cls_letter(o->model.size(), ET<T>::limit); }
template <class T> static void crossing(Ctx &c, size_t before, size_t after) {
    bool b = before >= (size_t)ET<T>::limit, a = after >= (size_t)ET<T>::limit;
    if (a != b) c.crossed_limit = true;
}
template <class T> static void make_room(Ctx &c, const ObjBase *keep = nullptr) {
    auto &v = c.bufs<T>();
    while (v.size() >= c.plan->k.pool_cap && v.size() > 1) {
        size_t i = (size_t)(c.step * 7 + 3) % v.size();
        if (v[i] == keep) i = (i + 1) % v.size();
        BufObj<T> *o = v[i];
        note_destroying(c, o);
        { simrt::SutScope s; o->p()->~buffer(); }
        obj_free(o->mem); remove_obj(c, o); delete o;
    }
}

template <class T> static bool exec_buf_t(Ctx &c, const Op &op) {
    typedef ST::buffer<T> Buf;
    typedef std::basic_string<T> Str;
    auto &v = c.bufs<T>();
    const unsigned BA = bit(EX_BAD_ALLOC);
    (void)BA;
    switch (op.kind) {
    case B_NEW_DEFAULT: {
        make_room<T>(c); note_sig<T>(c, op, "");
        void *mem = obj_alloc(sizeof(Buf));
        ExcKind ex = run_sut(c, op, [&] { new (mem) Buf(); });
        if (settle(c, op, ex, 0)) { auto *o = add_buf<T>(c, mem); o->role = ROLE_NEW; } else obj_free(mem);
        return true;
    }
    case B_NEW_PTRLEN: case B_NEW_LITERAL: {
        make_room<T>(c);
        Str data = take_units<T>(c, op.a, op.b);
        std::string what;
        if (op.fault & F_CORRUPT) what = corrupt_units<T>(data, op.fc);
        char e[64]; std::snprintf(e, sizeof e, "len=%c%s", cls_letter(data.size(), ET<T>::limit), what.empty() ? "" : ",corrupted");
        note_sig<T>(c, op, e);
        c.budget_bytes = data.size() * sizeof(T);
        void *mem = obj_alloc(sizeof(Buf));
        bool null_empty = data.empty() && (op.a & 1) && op.kind == B_NEW_PTRLEN;     // exercise (nullptr, 0)
        ExcKind ex = run_sut(c, op, [&] {
            if (op.kind == B_NEW_LITERAL) {
                using namespace ST::literals;
                new (mem) Buf(operator"" _stbuf(data.c_str(), data.size()));
            } else new (mem) Buf(null_empty ? nullptr : data.c_str(), data.size());
        });
        if (settle(c, op, ex, 0)) { auto *o = add_buf<T>(c, mem); o->model = data; o->role = ROLE_NEW; } else obj_free(mem);
        return true;
    }
    case B_NEW_FILL: {
        make_room<T>(c);
        size_t n = op.a; T ch = (T)(0x20 + op.b % 0x5F);
        char e[32]; std::snprintf(e, sizeof e, "len=%c", cls_letter(n, ET<T>::limit)); note_sig<T>(c, op, e);
        c.budget_bytes = n * sizeof(T);
        void *mem = obj_alloc(sizeof(Buf));
        ExcKind ex = run_sut(c, op, [&] { new (mem) Buf(n, ch); });
        if (settle(c, op, ex, 0)) { auto *o = add_buf<T>(c, mem); o->model = Str(n, ch); o->role = ROLE_NEW; } else obj_free(mem);
        return true;
    }
    case B_NEW_COPY: {
        BufObj<T> *src = pick(v, op.a);
        if (!src) { c.skipped = true; return true; }
        make_room<T>(c, src);
        Str val = src->model;
        char e[32]; std::snprintf(e, sizeof e, "src=%c", cl(src)); note_sig<T>(c, op, e);
        c.budget_bytes = val.size() * sizeof(T);
        as_const(src);
        if (src->moved_from) c.touched_moved_from = true;
        void *mem = obj_alloc(sizeof(Buf));
        ExcKind ex = run_sut(c, op, [&] { new (mem) Buf(*src->p()); });
        if (settle(c, op, ex, 0)) { auto *o = add_buf<T>(c, mem); o->model = val; o->role = ROLE_NEW; } else obj_free(mem);
        return true;
    }
    case B_NEW_MOVE: {
        BufObj<T> *src = pick(v, op.a);
        if (!src) { c.skipped = true; return true; }
        make_room<T>(c, src);
        char e[32]; std::snprintf(e, sizeof e, "src=%c", cl(src)); note_sig<T>(c, op, e);
        if (src->moved_from) c.touched_moved_from = true;
        as_rvalue(src);
        void *mem = obj_alloc(sizeof(Buf));
        ExcKind ex = run_sut(c, op, [&] { new (mem) Buf(std::move(*src->p())); });
        if (settle(c, op, ex, 0)) {
            auto *o = add_buf<T>(c, mem); o->model = src->model; o->role = ROLE_NEW;
            note_moved(c, src, o, false);
        } else obj_free(mem);
        return true;
    }
    case B_ASSIGN_COPY: {
        BufObj<T> *dst = pick(v, op.a), *src = pick(v, op.b);
        if (!dst) { c.skipped = true; return true; }
        char e[48]; std::snprintf(e, sizeof e, "dst=%c,src=%c%s", cl(dst), cl(src), dst == src ? ",self" : ""); note_sig<T>(c, op, e);
        c.budget_bytes = (dst->model.size() + src->model.size()) * sizeof(T);
        if (dst->moved_from || src->moved_from) c.touched_moved_from = true;
        if (dst == src) { as_const(dst); if (dst->model.size() >= (size_t)ET<T>::limit) probe(c, PR_SELF_COPY_ASSIGN_LONG); }
        else {
            as_target(dst); as_const(src);
            bool dl = dst->model.size() >= (size_t)ET<T>::limit, sl = src->model.size() >= (size_t)ET<T>::limit;
            if (dl && sl) probe(c, PR_COPY_ASSIGN_LONG_LONG);
            if (dl != sl) probe(c, PR_COPY_ASSIGN_ACROSS_LIMIT);
        }
        ExcKind ex = run_sut(c, op, [&] { *dst->p() = *src->p(); });
        if (settle(c, op, ex, 0) && dst != src) {
            crossing<T>(c, dst->model.size(), src->model.size());
            dst->model = src->model; dst->moved_from = false;
        }
        return true;
    }
    case B_ASSIGN_MOVE: {
        BufObj<T> *dst = pick(v, op.a), *src = pick(v, op.b);
        if (!dst) { c.skipped = true; return true; }
        char e[48]; std::snprintf(e, sizeof e, "dst=%c,src=%c%s", cl(dst), cl(src), dst == src ? ",self" : ""); note_sig<T>(c, op, e);
        if (dst->moved_from || src->moved_from) c.touched_moved_from = true;
        as_target(dst); if (dst != src) as_rvalue(src);
        if (dst == src) probe(c, PR_SELF_MOVE_ASSIGN);
        else if (dst->model.size() < (size_t)ET<T>::limit) probe(c, PR_MOVE_ASSIGN_INTO_SHORT);
        ExcKind ex = run_sut(c, op, [&] { *dst->p() = std::move(*src->p()); });
        if (settle(c, op, ex, 0)) {
            if (dst == src) { dst->st = M_VALID_ONLY; }     // content not guaranteed after self-move; validity is
            else {
                crossing<T>(c, dst->model.size(), src->model.size());
                bool l2s = src->model.size() >= (size_t)ET<T>::limit && dst->model.size() < (size_t)ET<T>::limit;
                dst->model = src->model;
                note_moved(c, src, dst, l2s);
            }
        }
        return true;
    }
    case B_ALLOCATE: case B_ALLOCATE_FILL: {
        BufObj<T> *dst = pick(v, op.a);
        if (!dst) { c.skipped = true; return true; }
        size_t n = op.b;
        char e[48]; std::snprintf(e, sizeof e, "dst=%c,len=%c", cl(dst), cls_letter(n, ET<T>::limit)); note_sig<T>(c, op, e);
        c.budget_bytes = (dst->model.size() + n) * sizeof(T);
        if (dst->moved_from) { probe(c, PR_ALLOCATE_ON_MOVED_FROM); c.touched_moved_from = true; }
        if (dst->model.empty() && !dst->moved_from) probe(c, PR_ALLOCATE_AFTER_CLEAR);
        if ((op.fault & F_ALLOC) && dst->model.size() >= (size_t)ET<T>::limit) probe(c, PR_FAULT_ALLOCATE_AFTER_RELEASE);
        as_target(dst);
        T ch = (T)(0x20 + op.c % 0x5F);
        Str pattern = op.kind == B_ALLOCATE ? take_units<T>(c, op.c, (uint32_t)n) : Str(n, ch);
        ExcKind ex = run_sut(c, op, [&] {
            if (op.kind == B_ALLOCATE) {
                dst->p()->allocate(n);
                // the caller fills the buffer through data(), as a user of allocate() does
                if (n) std::char_traits<T>::copy(dst->p()->data(), pattern.data(), n);
            } else dst->p()->allocate(n, ch);
        });
        if (settle(c, op, ex, 0)) { crossing<T>(c, dst->model.size(), n); dst->model = pattern; dst->moved_from = false; }
        return true;
    }
    case B_CLEAR: {
        BufObj<T> *dst = pick(v, op.a);
        if (!dst) { c.skipped = true; return true; }
        char e[32]; std::snprintf(e, sizeof e, "dst=%c", cl(dst)); note_sig<T>(c, op, e);
        if (dst->moved_from) c.touched_moved_from = true;
        as_target(dst);
        ExcKind ex = run_sut(c, op, [&] { dst->p()->clear(); });
        if (settle(c, op, ex, 0)) { crossing<T>(c, dst->model.size(), 0); dst->model.clear(); dst->moved_from = false; }
        return true;
    }
    case B_READ: {
        BufObj<T> *o = pick(v, op.a);
        if (!o) { c.skipped = true; return true; }
        char e[32]; std::snprintf(e, sizeof e, "obj=%c,%u", cl(o), op.b % 6); note_sig<T>(c, op, e);
        c.budget_bytes = o->model.size() * sizeof(T);
        if (o->moved_from) c.touched_moved_from = true;
        as_const(o);
        const Buf &b = *o->p();
        const Str &m = o->model;
        bool ok = true; std::string why;
        ExcKind ex = run_sut(c, op, [&] {
            switch (op.b % 6) {
            case 0:
                if (b.size() != m.size() || b.empty() != m.empty()) { ok = false; why = "size()/empty()"; }
                if (b.c_str() != b.data()) { ok = false; why = "c_str() != data()"; }
                if (b.front() != (m.empty() ? T(0) : m.front()) || b.back() != (m.empty() ? T(0) : m.back())) { ok = false; why = "front()/back()"; }
                break;
            case 1:
                for (size_t i = 0; i < m.size(); i++) if (b.at(i) != m[i] || b[i] != m[i]) { ok = false; why = "at()/operator[]"; }
                break;
            case 2: {
                Str f(b.begin(), b.end()), r(b.rbegin(), b.rend()), cf(b.cbegin(), b.cend()), cr(b.crbegin(), b.crend());
                Str mr(m.rbegin(), m.rend());
                if (f != m || cf != m || r != mr || cr != mr) { ok = false; why = "iterators"; }
                break;
            }
            case 3: { Str s = b.to_std_string(); if (s != m) { ok = false; why = "to_std_string()"; } break; }
            case 4: {
                auto vw = b.view(); if (Str(vw) != m) { ok = false; why = "view()"; }
                if (!m.empty()) { size_t st = op.a % m.size(); auto v2 = b.view(st); if (Str(v2) != m.substr(st)) { ok = false; why = "view(start)"; } }
                break;
            }
            default: {
                bool threw = false;
                try { (void)b.at(m.size() + (op.a % 3)); } catch (const std::out_of_range &) { threw = true; }
                if (!threw) { ok = false; why = "at(size()+k) did not throw std::out_of_range"; }
                const T sub[] = {T('?'), 0};
                if (b.c_str(sub) != (m.empty() ? sub : b.data())) { ok = false; why = "c_str(substitute)"; }
                break;
            }
            }
        });
        settle(c, op, ex, 0);
        if (!ok) set_viol(c, "value_mismatch", std::string("read disagrees with the model: ") + why);
        return true;
    }
    case B_COMPARE: {
        BufObj<T> *x = pick(v, op.a), *y = pick(v, op.b);
        if (!x) { c.skipped = true; return true; }
        char e[32]; std::snprintf(e, sizeof e, "l=%c,r=%c", cl(x), cl(y)); note_sig<T>(c, op, e);
        c.budget_bytes = (x->model.size() + y->model.size()) * sizeof(T);
        as_const(x); as_const(y);
        bool ok = true;
        ExcKind ex = run_sut(c, op, [&] {
            bool eqm = x->model == y->model;
            if ((x->p()->compare(*y->p()) == 0) != eqm) ok = false;
            if ((*x->p() == *y->p()) != eqm || (*x->p() != *y->p()) == eqm) ok = false;
            if ((x->p()->compare(y->p()->c_str()) == 0) != (x->model == Str(y->model.c_str()))) ok = false;
            size_t n = op.c % 24;
            if ((x->p()->compare_n(*y->p(), n) == 0) != (x->model.substr(0, n) == y->model.substr(0, n))) ok = false;
            (void)(*x->p() < *y->p());
        });
        settle(c, op, ex, 0);
        if (!ok) set_viol(c, "value_mismatch", "equality of two buffers disagrees with equality of their models");
        return true;
    }
    case B_DESTROY: {
        BufObj<T> *o = pick(v, op.a);
        if (!o) { c.skipped = true; return true; }
        char e[32]; std::snprintf(e, sizeof e, "obj=%c%s", cl(o), o->moved_from ? ",moved_from" : ""); note_sig<T>(c, op, e);
        note_destroying(c, o);
        ExcKind ex = run_sut(c, op, [&] { o->p()->~buffer(); });
        obj_free(o->mem); remove_obj(c, o); delete o;
        settle(c, op, ex, 0);
        return true;
    }
    default: return false;
    }
}

bool exec_buf(Ctx &c, const Op &op) {
    if (META[op.kind].fam > BD) return false;
    switch (op.t & 3) {
    case 0: return exec_buf_t<char>(c, op);
    case 1: return exec_buf_t<wchar_t>(c, op);
    case 2: return exec_buf_t<char16_t>(c, op);
    default: return exec_buf_t<char32_t>(c, op);
    }
}

} // namespace A
