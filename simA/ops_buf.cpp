// Engine A: buffer<T> operations (C05, also used by C18/C19 histories).
#include "core.h"

namespace A {

template <class T> static void note_sig(Ctx &c, const Op &op, const char *extra) {
    c.site = std::string(op_name(op.kind)) + "<" + ET<T>::name() + ">(" + extra + ")";
    c.sig.u8((uint8_t)op.kind); c.sig.u8(op.t); c.sig.str(extra);
}
template <class T> static char cl(const BufObj<T> *o) { return cls_letter(o->model.size(), ET<T>::limit); }
template <class T> static void crossing(Ctx &c, size_t before, size_t after) {
    bool b = before >= (size_t)ET<T>::limit, a = after >= (size_t)ET<T>::limit;
    if (a != b) c.crossed_limit = true;
}
template <class T> static void make_room(Ctx &c, const ObjBase *keep = nullptr) {
    auto &v = c.bufs<T>();
    while (v.size() >= c.plan->k.pool_cap && v.size() > 1) {
        size_t i = (size_t)(c.step * 7 + 3) % v.size();
        if (v[i] == keep) i = (i + 1) % v.size();
        BufObj<T> *o = v[i];
        note_destroying(c, o);
        { simrt::SutScope s; o->p()->~buffer(); }
        obj_free(o->mem); remove_obj(c, o); delete o;
    }
}


template <class T> static bool exec_buf_t(Ctx &c, const Op &op) {
    typedef ST::buffer<T> Buf;
    typedef std::basic_string<T> Str;
    auto &v = c.bufs<T>();
    const unsigned BA = bit(EX_BAD_ALLOC);
    (void)BA;
    switch (op.kind) {
    case B_NEW_DEFAULT: {
        make_room<T>(c); note_sig<T>(c, op, "");
        void *mem = obj_alloc(sizeof(Buf));
        ExcKind ex = run_sut(c, op, [&] { new (mem) Buf(); });
        if (settle(c, op, ex, 0)) { auto *o = add_buf<T>(c, mem); o->role = ROLE_NEW; } else obj_free(mem);
        return true;
    }
    case B_NEW_PTRLEN: case B_NEW_LITERAL: {
        make_room<T>(c);
        Str data = take_units<T>(c, op.a, op.b);
        std::string what;
        if (op.fault & F_CORRUPT) what = corrupt_units<T>(data, op.fc);
        char e[64]; std::snprintf(e, sizeof e, "len=%c%s", cls_letter(data.size(), ET<T>::limit), what.empty() ? "" : ",corrupted");
        note_sig<T>(c, op, e);
        c.budget_bytes = data.size() * sizeof(T);
        void *mem = obj_alloc(sizeof(Buf));
        bool null_empty = data.empty() && (op.a & 1) && op.kind == B_NEW_PTRLEN;     // exercise (nullptr, 0)
        ExcKind ex = run_sut(c, op, [&] {
            if (op.kind == B_NEW_LITERAL) {
                using namespace ST::literals;
                new (mem) Buf(operator"" _stbuf(data.c_str(), data.size()));
            } else new (mem) Buf(null_empty ? nullptr : data.c_str(), data.size());
        });
        if (settle(c, op, ex, 0)) { auto *o = add_buf<T>(c, mem); o->model = data; o->role = ROLE_NEW; } else obj_free(mem);
        return true;
    }
    case B_NEW_FILL: {
        make_room<T>(c);
        size_t n = op.a; T ch = (T)(0x20 + op.b % 0x5F);
        char e[32]; std::snprintf(e, sizeof e, "len=%c", cls_letter(n, ET<T>::limit)); note_sig<T>(c, op, e);
        c.budget_bytes = n * sizeof(T);
        void *mem = obj_alloc(sizeof(Buf));
        ExcKind ex = run_sut(c, op, [&] { new (mem) Buf(n, ch); });
        if (settle(c, op, ex, 0)) { auto *o = add_buf<T>(c, mem); o->model = Str(n, ch); o->role = ROLE_NEW; } else obj_free(mem);
        return true;
    }
    case B_NEW_COPY: {
        BufObj<T> *src = pick(v, op.a);
        if (!src) { c.skipped = true; return true; }
        make_room<T>(c, src);
        Str val = src->model;
        char e[32]; std::snprintf(e, sizeof e, "src=%c", cl(src)); note_sig<T>(c, op, e);
        c.budget_bytes = val.size() * sizeof(T);
        as_const(src);
        if (src->moved_from) c.touched_moved_from = true;
        void *mem = obj_alloc(sizeof(Buf));
        ExcKind ex = run_sut(c, op, [&] { new (mem) Buf(*src->p()); });
        if (settle(c, op, ex, 0)) { auto *o = add_buf<T>(c, mem); o->model = val; o->role = ROLE_NEW; } else obj_free(mem);
        return true;
    }
    case B_NEW_MOVE: {
        BufObj<T> *src = pick(v, op.a);
        if (!src) { c.skipped = true; return true; }
        make_room<T>(c, src);
        char e[32]; std::snprintf(e, sizeof e, "src=%c", cl(src)); note_sig<T>(c, op, e);
        if (src->moved_from) c.touched_moved_from = true;
        as_rvalue(src);
        void *mem = obj_alloc(sizeof(Buf));
        ExcKind ex = run_sut(c, op, [&] { new (mem) Buf(std::move(*src->p())); });
        if (settle(c, op, ex, 0)) {
            auto *o = add_buf<T>(c, mem); o->model = src->model; o->role = ROLE_NEW;
            note_moved(c, src, o, false);
        } else obj_free(mem);
        return true;
    }
    case B_ASSIGN_COPY: {
        BufObj<T> *dst = pick(v, op.a), *src = pick(v, op.b);
        if (!dst) { c.skipped = true; return true; }
        char e[48]; std::snprintf(e, sizeof e, "dst=%c,src=%c%s", cl(dst), cl(src), dst == src ? ",self" : ""); note_sig<T>(c, op, e);
        c.budget_bytes = (dst->model.size() + src->model.size()) * sizeof(T);
        if (dst->moved_from || src->moved_from) c.touched_moved_from = true;
        if (dst == src) { as_target(dst); if (dst->model.size() >= (size_t)ET<T>::limit) probe(c, PR_SELF_COPY_ASSIGN_LONG); }      // same value afterwards; the storage may be new
        else {
            as_target(dst); as_const(src);
            bool dl = dst->model.size() >= (size_t)ET<T>::limit, sl = src->model.size() >= (size_t)ET<T>::limit;
            if (dl && sl) probe(c, PR_COPY_ASSIGN_LONG_LONG);
            if (dl != sl) probe(c, PR_COPY_ASSIGN_ACROSS_LIMIT);
        }
        ExcKind ex = run_sut(c, op, [&] { *dst->p() = *src->p(); });
        if (settle(c, op, ex, 0) && dst != src) {
            crossing<T>(c, dst->model.size(), src->model.size());
            dst->model = src->model; dst->moved_from = false;
        }
        return true;
    }
    case B_ASSIGN_MOVE: {
        BufObj<T> *dst = pick(v, op.a), *src = pick(v, op.b);
        if (!dst) { c.skipped = true; return true; }
        char e[48]; std::snprintf(e, sizeof e, "dst=%c,src=%c%s", cl(dst), cl(src), dst == src ? ",self" : ""); note_sig<T>(c, op, e);
        if (dst->moved_from || src->moved_from) c.touched_moved_from = true;
        as_target(dst); if (dst != src) as_rvalue(src);
        if (dst == src) probe(c, PR_SELF_MOVE_ASSIGN);
        else if (dst->model.size() < (size_t)ET<T>::limit) probe(c, PR_MOVE_ASSIGN_INTO_SHORT);
        ExcKind ex = run_sut(c, op, [&] { *dst->p() = std::move(*src->p()); });
        if (settle(c, op, ex, 0)) {
            if (dst == src) { dst->st = M_VALID_ONLY; }     // content not guaranteed after self-move; validity is
            else {
                crossing<T>(c, dst->model.size(), src->model.size());
                bool l2s = src->model.size() >= (size_t)ET<T>::limit && dst->model.size() < (size_t)ET<T>::limit;
                dst->model = src->model;
                note_moved(c, src, dst, l2s);
            }
        }
        return true;
    }
    case B_SWAP: {
        // exchanging two values the way generic code does it: an unqualified swap (found by ADL if the library provides one, std::swap's
        // move construction + two move assignments otherwise), std::iter_swap, or std::swap itself
        BufObj<T> *a = pick(v, op.a), *b = pick(v, op.b);
        if (!a || !b || a == b) { c.skipped = true; return true; }
        char e[48]; std::snprintf(e, sizeof e, "a=%c,b=%c,form=%u", cl(a), cl(b), op.c % 3); note_sig<T>(c, op, e);
        if (a->moved_from || b->moved_from) c.touched_moved_from = true;
        as_target(a); as_target(b);
        ExcKind ex = run_sut(c, op, [&] { using std::swap; switch (op.c % 3) { case 0: swap(*a->p(), *b->p()); break; case 1: std::iter_swap(a->p(), b->p()); break; default: std::swap(*a->p(), *b->p()); break; } });
        if (settle(c, op, ex, 0)) { crossing<T>(c, a->model.size(), b->model.size()); std::swap(a->model, b->model); std::swap(a->moved_from, b->moved_from); }
        return true;
    }
    case B_ALLOCATE: case B_ALLOCATE_FILL: {
        BufObj<T> *dst = pick(v, op.a);
        if (!dst) { c.skipped = true; return true; }
        size_t n = op.b;
        char e[48]; std::snprintf(e, sizeof e, "dst=%c,len=%c", cl(dst), cls_letter(n, ET<T>::limit)); note_sig<T>(c, op, e);
        c.budget_bytes = (dst->model.size() + n) * sizeof(T);
        if (dst->moved_from) { probe(c, PR_ALLOCATE_ON_MOVED_FROM); c.touched_moved_from = true; }
        if (dst->model.empty() && !dst->moved_from) probe(c, PR_ALLOCATE_AFTER_CLEAR);
        if ((op.fault & F_ALLOC) && dst->model.size() >= (size_t)ET<T>::limit) probe(c, PR_FAULT_ALLOCATE_AFTER_RELEASE);
        as_target(dst);
        T ch = (op.c % 11 == 10) ? T(0) : (T)(0x20 + op.c % 0x5F);      // NUL is an element like any other (a buffer of n zeros has size n)
        // the fill value may be handed over as a reference to an element of the very buffer being re-allocated: b.allocate(n, b.front()) / b.back() / b[i]
        const unsigned self_fill = (op.kind == B_ALLOCATE_FILL && op.c % 7 == 3) ? 1 + (op.c / 7) % 3 : 0;
        if (self_fill) ch = dst->model.empty() ? T(0) : self_fill == 1 ? dst->model.front() : self_fill == 2 ? dst->model.back() : dst->model[(op.c / 21) % dst->model.size()];
        Str pattern = op.kind == B_ALLOCATE ? take_units<T>(c, op.c, (uint32_t)n) : Str(n, ch);
        ExcKind ex = run_sut(c, op, [&] {
            if (op.kind == B_ALLOCATE) {
                dst->p()->allocate(n);
                // the caller fills the buffer through data(), as a user of allocate() does
                if (n) std::char_traits<T>::copy(dst->p()->data(), pattern.data(), n);
            } else if (self_fill && !dst->model.empty()) {
                Buf &b = *dst->p();
                if (self_fill == 1) b.allocate(n, b.front()); else if (self_fill == 2) b.allocate(n, b.back()); else b.allocate(n, b[(op.c / 21) % dst->model.size()]);
            } else dst->p()->allocate(n, ch);
        });
        if (settle(c, op, ex, 0)) { crossing<T>(c, dst->model.size(), n); dst->model = pattern; dst->moved_from = false; }
        return true;
    }
    case B_HUGE: {
        // "much larger": element counts that do not fit 32 (or 31, or 33) bits. The block comes from reserved address space (heap seam) and only
        // its first and last page are ever touched: allocate(n), look, write the two ends, move the value out, let it go. No copy is made.
        BufObj<T> *dst = pick(v, op.a);
        if (!dst || !simrt::heap_huge_available()) { c.skipped = true; return true; }
        static const unsigned SH[] = {32, 31, 33};
        // a fourth family: counts whose byte size cannot be represented at all, or that no machine can serve ((n + 1) * sizeof(T) wraps around, or
        // exceeds PTRDIFF_MAX). The request must be refused - std::bad_alloc (std::bad_array_new_length is one) - and leave a valid buffer behind.
        const bool beyond = (op.b >> 5) % 4 == 3;
        const size_t M = (size_t)-1, Q = M / sizeof(T);
        const size_t BEYOND[] = {Q - 1, Q, Q + 1, (size_t)1 << 62, ((size_t)1 << 63) - 1, (size_t)1 << 63, M / 2 + 7, M - 1, Q - 1 - op.b % 5, ((size_t)1 << 62) + op.b % 3};
        size_t n = beyond ? BEYOND[(op.b >> 7) % 10] : ((size_t)1 << SH[(op.b >> 5) % 3]) + op.b % 24;
        // (size_t)-1 itself is not a count: it is ST_AUTO_SIZE, the library's "no size given" (and Q + 1 wraps to 0 for one-byte elements)
        if (beyond && (n == M || n < ((size_t)1 << 40))) n = M - 1 - op.b % 7;
        char e[64];
        if (beyond) std::snprintf(e, sizeof e, "dst=%c,beyond#%u", cl(dst), (unsigned)((op.b >> 7) % 10));
        else std::snprintf(e, sizeof e, "dst=%c,2^%u+%u", cl(dst), SH[(op.b >> 5) % 3], (unsigned)(op.b % 24));
        note_sig<T>(c, op, e);
        c.budget_bytes = dst->model.size() * sizeof(T) + 256;
        if (dst->moved_from) c.touched_moved_from = true;
        as_target(dst);
        bool size_ok = false, block_ok = false, term_ok = false, moved_ok = false;
        ExcKind ex = run_sut(c, op, [&] {
            Buf &b = *dst->p();
            b.allocate(n);
            size_ok = b.size() == n;
            simrt::BlockInfo bi; block_ok = n < Q && simrt::heap_lookup(b.data(), &bi) && bi.size >= (n + 1) * sizeof(T);
            term_ok = block_ok && b.data()[n] == T(0);
            if (block_ok) { b.data()[0] = T('h'); b.data()[n - 1] = T('z'); }
            const T *was = b.data();
            Buf t(std::move(b));
            moved_ok = t.size() == n && (!block_ok || (t.data() == was && t.front() == T('h') && t.back() == T('z') && t.data()[n] == T(0)));
        });
        if (ex == EX_NONE && !(size_ok && block_ok && term_ok && moved_ok))
            set_viol(c, !size_ok ? "value_mismatch" : !block_ok ? "storage_class" : !term_ok ? "terminator_missing" : "value_mismatch",
                     std::string(ET<T>::name()) + ": allocate(" + std::to_string(n) + "): " + (!size_ok ? "size() differs" : !block_ok ? "data() is not the base of a live heap block of n+1 elements" : !term_ok ? "no NUL after the last element" : "the value did not survive a move"));
        if (beyond && ex == EX_BAD_ALLOC) c.fired = true;      // refused by the language or by the allocator, not by an injected fault: the same contract applies (target old or empty, everything valid)
        // (a count that cannot be represented may as well be refused with a std::length_error-like exception before anything is touched: then the value stays)
        if (settle(c, op, ex, beyond ? bit(EX_OTHER) : 0)) { crossing<T>(c, dst->model.size(), 0); dst->model.clear(); dst->moved_from = true; }
        return true;
    }
    case B_STRAIGHT: {
        // straight-line code on local objects, everything inlined into one function - what a user's function looks like to the optimiser (the pool
        // operations are separate calls, so nothing the compiler may assume about one call carries into the next). Matters in the -O2 variant.
        char e[32]; std::snprintf(e, sizeof e, "form=%u", op.b % 4); note_sig<T>(c, op, e);
        c.budget_bytes = 512;
        std::string why;
        ExcKind ex = run_sut(c, op, [&] { why = straight_line_run(ET<T>::idx, op.b, op.c, op.d); });
        if (ex == EX_NONE && !why.empty()) set_viol(c, "value_mismatch", std::string(ET<T>::name()) + " (local objects, straight-line code): " + why);
        settle(c, op, ex, 0);
        return true;
    }
    case B_CLEAR: {
        BufObj<T> *dst = pick(v, op.a);
        if (!dst) { c.skipped = true; return true; }
        char e[32]; std::snprintf(e, sizeof e, "dst=%c", cl(dst)); note_sig<T>(c, op, e);
        if (dst->moved_from) c.touched_moved_from = true;
        as_target(dst);
        ExcKind ex = run_sut(c, op, [&] { if (op.b % 3 == 2) *dst->p() = ST::null; else dst->p()->clear(); });      // (assigning ST::null is the other spelling of clear())
        if (settle(c, op, ex, 0)) { crossing<T>(c, dst->model.size(), 0); dst->model.clear(); dst->moved_from = false; }
        return true;
    }
    case B_READ: {
        BufObj<T> *o = pick(v, op.a);
        if (!o) { c.skipped = true; return true; }
        char e[32]; std::snprintf(e, sizeof e, "obj=%c,%u", cl(o), op.b % 7); note_sig<T>(c, op, e);
        c.budget_bytes = o->model.size() * sizeof(T);
        if (o->moved_from) c.touched_moved_from = true;
        as_const(o);
        const Buf &b = *o->p();
        const Str &m = o->model;
        bool ok = true; std::string why;
        ExcKind ex = run_sut(c, op, [&] {
            switch (op.b % 7) {
            case 6: {   // the non-const accessors read the same elements (an owner looking at its own buffer)
                Buf &nb = *o->p();
                for (size_t i = 0; i < m.size(); i++) if (nb.at(i) != m[i] || nb[i] != m[i]) { ok = false; why = "non-const at()/operator[]"; }
                if (nb.front() != (m.empty() ? T(0) : m.front()) || nb.back() != (m.empty() ? T(0) : m.back())) { ok = false; why = "non-const front()/back()"; }
                if (&nb.front() != nb.data() || &nb.back() != nb.data() + (m.empty() ? 0 : m.size() - 1)) { ok = false; why = "non-const front()/back() refer to another element"; }
                Str f(nb.begin(), nb.end()), r(nb.rbegin(), nb.rend()); Str mr(m.rbegin(), m.rend());
                if (f != m || r != mr || nb.data() != b.data()) { ok = false; why = "non-const iterators / data()"; }
                bool threw = false; try { (void)nb.at(m.size() + (op.a % 3)); } catch (const std::out_of_range &) { threw = true; }
                if (!threw) { ok = false; why = "non-const at(size()+k) did not throw std::out_of_range"; }
                break;
            }
            case 0:
                if (b.size() != m.size() || b.empty() != m.empty()) { ok = false; why = "size()/empty()"; }
                if (b.c_str() != b.data()) { ok = false; why = "c_str() != data()"; }
                if (b.front() != (m.empty() ? T(0) : m.front()) || b.back() != (m.empty() ? T(0) : m.back())) { ok = false; why = "front()/back()"; }
                if (&b.front() != b.data() || &b.back() != b.data() + (m.empty() ? 0 : m.size() - 1)) { ok = false; why = "front()/back() refer to another element"; }
                break;
            case 1:
                for (size_t i = 0; i < m.size(); i++) if (b.at(i) != m[i] || b[i] != m[i]) { ok = false; why = "at()/operator[]"; }
                break;
            case 2: {
                Str f(b.begin(), b.end()), r(b.rbegin(), b.rend()), cf(b.cbegin(), b.cend()), cr(b.crbegin(), b.crend());
                Str mr(m.rbegin(), m.rend());
                if (f != m || cf != m || r != mr || cr != mr) { ok = false; why = "iterators"; }
                break;
            }
            case 3: { Str s = b.to_std_string(); if (s != m) { ok = false; why = "to_std_string()"; } break; }
            case 4: {
                auto vw = b.view(); if (Str(vw) != m) { ok = false; why = "view()"; }
                if (!m.empty()) { size_t st = op.a % m.size(); auto v2 = b.view(st); if (Str(v2) != m.substr(st)) { ok = false; why = "view(start)"; } }
                break;
            }
            default: {
                bool threw = false;
                try { (void)b.at(m.size() + (op.a % 3)); } catch (const std::out_of_range &) { threw = true; }
                if (!threw) { ok = false; why = "at(size()+k) did not throw std::out_of_range"; }
                const T sub[] = {T('?'), 0};
                if (b.c_str(sub) != (m.empty() ? sub : b.data())) { ok = false; why = "c_str(substitute)"; }
                break;
            }
            }
        });
        settle(c, op, ex, 0);
        if (!ok) set_viol(c, "value_mismatch", std::string("read disagrees with the model: ") + why);
        return true;
    }
    case B_COMPARE: {
        BufObj<T> *x = pick(v, op.a), *y = pick(v, op.b);
        if (!x) { c.skipped = true; return true; }
        char e[32]; std::snprintf(e, sizeof e, "l=%c,r=%c", cl(x), cl(y)); note_sig<T>(c, op, e);
        c.budget_bytes = (x->model.size() + y->model.size()) * sizeof(T);
        as_const(x); as_const(y);
        bool ok = true;
        ExcKind ex = run_sut(c, op, [&] {
            bool eqm = x->model == y->model;
            if ((x->p()->compare(*y->p()) == 0) != eqm) ok = false;
            if ((*x->p() == *y->p()) != eqm || (*x->p() != *y->p()) == eqm) ok = false;
            if ((x->p()->compare(y->p()->c_str()) == 0) != (x->model == Str(y->model.c_str()))) ok = false;
            size_t n = op.c % 24;
            if ((x->p()->compare_n(*y->p(), n) == 0) != (x->model.substr(0, n) == y->model.substr(0, n))) ok = false;
            (void)(*x->p() < *y->p());
        });
        settle(c, op, ex, 0);
        if (!ok) set_viol(c, "value_mismatch", "equality of two buffers disagrees with equality of their models");
        return true;
    }
    case B_DESTROY: {
        BufObj<T> *o = pick(v, op.a);
        if (!o) { c.skipped = true; return true; }
        char e[32]; std::snprintf(e, sizeof e, "obj=%c%s", cl(o), o->moved_from ? ",moved_from" : ""); note_sig<T>(c, op, e);
        note_destroying(c, o);
        ExcKind ex = run_sut(c, op, [&] { o->p()->~buffer(); });
        obj_free(o->mem); remove_obj(c, o); delete o;
        settle(c, op, ex, 0);
        return true;
    }
    default: return false;
    }
}

// reference transcoding helpers for B_CONVERT
static bool model_scalars(const std::string &m, Scalars &out) { return decode_utf8_strict(m, out); }
static bool model_scalars(const std::u16string &m, Scalars &out) {
    out.clear();
    for (size_t i = 0; i < m.size(); i++) {
        char32_t ch = m[i];
        if (ch >= 0xD800 && ch <= 0xDBFF) { if (i + 1 >= m.size() || m[i + 1] < 0xDC00 || m[i + 1] > 0xDFFF) return false; ch = 0x10000 + ((ch & 0x3FF) << 10) + (m[i + 1] & 0x3FF); ++i; }
        else if (ch >= 0xDC00 && ch <= 0xDFFF) return false;
        out += ch;
    }
    return true;
}
static bool model_scalars(const std::u32string &m, Scalars &out) { out = m; for (char32_t ch : m) if (ch > 0x10FFFF || (ch >= 0xD800 && ch <= 0xDFFF)) return false; return true; }
static bool model_scalars(const std::wstring &m, Scalars &out) { return model_scalars(std::u32string(m.begin(), m.end()), out); }

template <class Src> static bool exec_convert(Ctx &c, const Op &op) {
    // free conversion functions: source = a pool buffer of element type Src, result = a new pool buffer
    auto &v = c.bufs<Src>();
    BufObj<Src> *src = nullptr;
    if constexpr (std::is_same<Src, char>::value) src = pick_b8_text(c, op.a); else src = pick(v, op.a);
    if (!src) { c.skipped = true; return true; }
    unsigned target = op.b % 5;             // 0 utf8, 1 wchar, 2 utf16, 3 utf32, 4 latin-1
    bool ptr_form = op.c & 1; unsigned modebits = (op.c >> 1) & 3; bool as_latin1 = std::is_same<Src, char>::value && ((op.c >> 3) & 1); bool subst_oor = (op.c >> 4) & 1;
    if (std::is_same<Src, char>::value && !as_latin1 && target == 0) target = 2;            // utf8 -> utf8 does not exist
    if (std::is_same<Src, char16_t>::value && target == 2) target = 0;
    if (std::is_same<Src, char32_t>::value && target == 3) target = 0;
    if (std::is_same<Src, wchar_t>::value && target == 1) target = 0;
    if (as_latin1 && target == 4) target = 0;
    ST::utf_validation_t mode = modebits == 1 ? ST::substitute_invalid : modebits == 2 ? ST::assume_valid : ST::check_validity;
    const bool dflt = modebits == 0;
    Scalars sc; bool wf;
    if (as_latin1) { sc.clear(); for (unsigned char ch : std::string((const char *)src->model.data(), src->model.size())) sc += ch; wf = true; }
    else wf = model_scalars(src->model, sc);
    bool lat_ok = true; for (char32_t ch : sc) if (ch >= 0x100) lat_ok = false;
    char e[96]; std::snprintf(e, sizeof e, "to=%u,src=%c,%s%s%s", target, cl(src), ptr_form ? "ptr" : "buf", as_latin1 ? ",latin1" : "", wf ? "" : ",invalid");
    note_sig<Src>(c, op, e);
    c.budget_bytes = src->model.size() * sizeof(Src) * 6;
    as_const(src);
    const Src *p = src->p()->data(); size_t n = src->p()->size();
    const auto &sb = *src->p();
    unsigned allowed = wf ? 0 : bit(EX_UNICODE);
    if (target == 4 && !subst_oor && !lat_ok) allowed |= bit(EX_UNICODE);
    void *mem = nullptr; ExcKind ex;
#define CONV(T, CALL_PTR, CALL_BUF, SETMODEL)                                                                                      \
    { make_room<T>(c, std::is_same<T, Src>::value ? (const ObjBase *)src : nullptr); mem = obj_alloc(sizeof(ST::buffer<T>));         \
      ex = run_sut(c, op, [&] { if (ptr_form) new (mem) ST::buffer<T>(CALL_PTR); else new (mem) ST::buffer<T>(CALL_BUF); });       \
      if (settle(c, op, ex, allowed)) { auto *o = add_buf<T>(c, mem); o->role = ROLE_NEW; o->parent = src->serial; if (wf) { SETMODEL; } else o->st = M_ADOPT; }  \
      else obj_free(mem); }
    if constexpr (std::is_same<Src, char>::value) {
        if (as_latin1) {
            switch (target) {
            case 0: CONV(char, ST::latin_1_to_utf8(p, n), ST::latin_1_to_utf8(sb), enc_utf8(sc, o->model)) break;
            case 1: CONV(wchar_t, ST::latin_1_to_wchar(p, n), ST::latin_1_to_wchar(sb), o->model.assign(sc.begin(), sc.end())) break;
            case 2: CONV(char16_t, ST::latin_1_to_utf16(p, n), ST::latin_1_to_utf16(sb), enc_utf16(sc, o->model)) break;
            default: CONV(char32_t, ST::latin_1_to_utf32(p, n), ST::latin_1_to_utf32(sb), o->model = sc) break;
            }
        } else {
            switch (target) {
            case 1: CONV(wchar_t, dflt ? ST::utf8_to_wchar(p, n) : ST::utf8_to_wchar(p, n, mode), dflt ? ST::utf8_to_wchar(sb) : ST::utf8_to_wchar(sb, mode), o->model.assign(sc.begin(), sc.end())) break;
            case 2: CONV(char16_t, dflt ? ST::utf8_to_utf16(p, n) : ST::utf8_to_utf16(p, n, mode), dflt ? ST::utf8_to_utf16(sb) : ST::utf8_to_utf16(sb, mode), enc_utf16(sc, o->model)) break;
            case 3: CONV(char32_t, dflt ? ST::utf8_to_utf32(p, n) : ST::utf8_to_utf32(p, n, mode), dflt ? ST::utf8_to_utf32(sb) : ST::utf8_to_utf32(sb, mode), o->model = sc) break;
            default: CONV(char, ST::utf8_to_latin_1(p, n, mode, subst_oor), ST::utf8_to_latin_1(sb, mode, subst_oor), { o->model.clear(); for (char32_t ch : sc) o->model += ch < 0x100 ? (char)ch : '?'; }) break;
            }
        }
    } else if constexpr (std::is_same<Src, char16_t>::value) {
        switch (target) {
        case 0: CONV(char, dflt ? ST::utf16_to_utf8(p, n) : ST::utf16_to_utf8(p, n, mode), dflt ? ST::utf16_to_utf8(sb) : ST::utf16_to_utf8(sb, mode), enc_utf8(sc, o->model)) break;
        case 1: CONV(wchar_t, dflt ? ST::utf16_to_wchar(p, n) : ST::utf16_to_wchar(p, n, mode), dflt ? ST::utf16_to_wchar(sb) : ST::utf16_to_wchar(sb, mode), o->model.assign(sc.begin(), sc.end())) break;
        case 3: CONV(char32_t, dflt ? ST::utf16_to_utf32(p, n) : ST::utf16_to_utf32(p, n, mode), dflt ? ST::utf16_to_utf32(sb) : ST::utf16_to_utf32(sb, mode), o->model = sc) break;
        default: CONV(char, ST::utf16_to_latin_1(p, n, mode, subst_oor), ST::utf16_to_latin_1(sb, mode, subst_oor), { o->model.clear(); for (char32_t ch : sc) o->model += ch < 0x100 ? (char)ch : '?'; }) break;
        }
    } else if constexpr (std::is_same<Src, char32_t>::value) {
        switch (target) {
        case 0: CONV(char, dflt ? ST::utf32_to_utf8(p, n) : ST::utf32_to_utf8(p, n, mode), dflt ? ST::utf32_to_utf8(sb) : ST::utf32_to_utf8(sb, mode), enc_utf8(sc, o->model)) break;
        case 1: CONV(wchar_t, dflt ? ST::utf32_to_wchar(p, n) : ST::utf32_to_wchar(p, n, mode), dflt ? ST::utf32_to_wchar(sb) : ST::utf32_to_wchar(sb, mode), o->model.assign(sc.begin(), sc.end())) break;
        case 2: CONV(char16_t, dflt ? ST::utf32_to_utf16(p, n) : ST::utf32_to_utf16(p, n, mode), dflt ? ST::utf32_to_utf16(sb) : ST::utf32_to_utf16(sb, mode), enc_utf16(sc, o->model)) break;
        default: CONV(char, ST::utf32_to_latin_1(p, n, mode, subst_oor), ST::utf32_to_latin_1(sb, mode, subst_oor), { o->model.clear(); for (char32_t ch : sc) o->model += ch < 0x100 ? (char)ch : '?'; }) break;
        }
    } else {
        switch (target) {
        case 0: CONV(char, dflt ? ST::wchar_to_utf8(p, n) : ST::wchar_to_utf8(p, n, mode), dflt ? ST::wchar_to_utf8(sb) : ST::wchar_to_utf8(sb, mode), enc_utf8(sc, o->model)) break;
        case 2: CONV(char16_t, dflt ? ST::wchar_to_utf16(p, n) : ST::wchar_to_utf16(p, n, mode), dflt ? ST::wchar_to_utf16(sb) : ST::wchar_to_utf16(sb, mode), enc_utf16(sc, o->model)) break;
        case 3: CONV(char32_t, dflt ? ST::wchar_to_utf32(p, n) : ST::wchar_to_utf32(p, n, mode), dflt ? ST::wchar_to_utf32(sb) : ST::wchar_to_utf32(sb, mode), o->model = sc) break;
        default: CONV(char, ST::wchar_to_latin_1(p, n, mode, subst_oor), ST::wchar_to_latin_1(sb, mode, subst_oor), { o->model.clear(); for (char32_t ch : sc) o->model += ch < 0x100 ? (char)ch : '?'; }) break;
        }
    }
#undef CONV
    if (ex != EX_NONE && ex != EX_BAD_ALLOC && src->model.size() >= (size_t)ET<Src>::limit) probe(c, PR_THROW_WITH_HEAP_TARGET);
    return true;
}

bool exec_buf(Ctx &c, const Op &op) {
    if (op.kind == B_CONVERT) {
        switch (op.t & 3) {
        case 0: return exec_convert<char>(c, op);
        case 1: return exec_convert<wchar_t>(c, op);
        case 2: return exec_convert<char16_t>(c, op);
        default: return exec_convert<char32_t>(c, op);
        }
    }
    if (META[op.kind].fam > BD) return false;
    switch (op.t & 3) {
    case 0: return exec_buf_t<char>(c, op);
    case 1: return exec_buf_t<wchar_t>(c, op);
    case 2: return exec_buf_t<char16_t>(c, op);
    default: return exec_buf_t<char32_t>(c, op);
    }
}

} // namespace A
