// Engine A: one prepared text argument in any of the source forms ST::string accepts.
#pragma once
#include "core.h"

namespace A {

enum SrcKind {
    SK_CSTR = 0, SK_PTRLEN, SK_CBUF_L, SK_CBUF_R, SK_STD, SK_SV, SK_C8, SK_U8STR, SK_U8SV,
    SK_W, SK_WN, SK_16, SK_16N, SK_32, SK_32N, SK_WBUF, SK_16BUF, SK_32BUF,
    SK_WSTR, SK_16STR, SK_32STR, SK_WSV, SK_16SV, SK_32SV, SK_STR_COPY, SK_STR_MOVE, SK_NULL, SK__COUNT
};

struct TextArg {
    unsigned kind = 0;
    bool single = false;          // only single-argument overloads are available (operator=, +=, +)
    std::string n8; std::wstring nw; std::u16string n16; std::u32string n32; std::u8string n8u;
    BufObj<char> *b8 = nullptr; BufObj<wchar_t> *bw = nullptr; BufObj<char16_t> *b16 = nullptr; BufObj<char32_t> *b32 = nullptr;
    StrObj *s = nullptr;
    ObjBase *pool_obj = nullptr;  // the pool object used as argument, if any
    std::string expect;           // UTF-8 value the library must produce when `wf`
    bool wf = true;               // input strictly well-formed: no exception allowed, value predicted
    bool corrupted = false;
    ST::utf_validation_t mode = ST::check_validity;
    bool explicit_mode = false;
    bool nonconst_lvalue = false; // SK_STR_COPY: hand the source over as ST::string& rather than const ST::string& (a copy all the same)
    size_t in_bytes = 0;
    char cls = 'e';               // storage class letter of the input (in its own units)
    const char *kind_name() const;
};

// Returns false if no eligible operand exists (op is skipped).
//   srcsel: data-source id, or pool selector for buffer / string kinds;  n: length in units
bool prepare_text(Ctx &c, const Op &op, unsigned kind, uint32_t srcsel, uint32_t n, unsigned modebits, bool single, TextArg &A);

// calls f with the typed argument pack for this kind
template <class F> void with_arg(TextArg &A, F &&f) {
    const bool m = A.explicit_mode && !A.single;
    switch (A.kind) {
    case SK_CSTR: f(A.n8.c_str()); break;
    case SK_PTRLEN: if (A.single) f(A.n8.c_str()); else if (m) f(A.n8.data(), A.n8.size(), A.mode); else f(A.n8.data(), A.n8.size()); break;
    case SK_CBUF_L: if (m) f(static_cast<const ST::char_buffer &>(*A.b8->p()), A.mode); else f(static_cast<const ST::char_buffer &>(*A.b8->p())); break;
    case SK_CBUF_R: if (m) f(std::move(*A.b8->p()), A.mode); else f(std::move(*A.b8->p())); break;
    case SK_STD: if (m) f(A.n8, A.mode); else f(A.n8); break;
    case SK_SV: if (m) f(std::string_view(A.n8), A.mode); else f(std::string_view(A.n8)); break;
    case SK_C8: f(A.n8u.c_str()); break;
    case SK_U8STR: if (m) f(A.n8u, A.mode); else f(A.n8u); break;
    case SK_U8SV: if (m) f(std::u8string_view(A.n8u), A.mode); else f(std::u8string_view(A.n8u)); break;
    case SK_W: f(A.nw.c_str()); break;
    case SK_WN: if (A.single) f(A.nw.c_str()); else if (m) f(A.nw.data(), A.nw.size(), A.mode); else f(A.nw.data(), A.nw.size()); break;
    case SK_16: f(A.n16.c_str()); break;
    case SK_16N: if (A.single) f(A.n16.c_str()); else if (m) f(A.n16.data(), A.n16.size(), A.mode); else f(A.n16.data(), A.n16.size()); break;
    case SK_32: f(A.n32.c_str()); break;
    case SK_32N: if (A.single) f(A.n32.c_str()); else if (m) f(A.n32.data(), A.n32.size(), A.mode); else f(A.n32.data(), A.n32.size()); break;
    case SK_WBUF: if (m) f(static_cast<const ST::wchar_buffer &>(*A.bw->p()), A.mode); else f(static_cast<const ST::wchar_buffer &>(*A.bw->p())); break;
    case SK_16BUF: if (m) f(static_cast<const ST::utf16_buffer &>(*A.b16->p()), A.mode); else f(static_cast<const ST::utf16_buffer &>(*A.b16->p())); break;
    case SK_32BUF: if (m) f(static_cast<const ST::utf32_buffer &>(*A.b32->p()), A.mode); else f(static_cast<const ST::utf32_buffer &>(*A.b32->p())); break;
    case SK_WSTR: if (m) f(A.nw, A.mode); else f(A.nw); break;
    case SK_16STR: if (m) f(A.n16, A.mode); else f(A.n16); break;
    case SK_32STR: if (m) f(A.n32, A.mode); else f(A.n32); break;
    case SK_WSV: if (m) f(std::wstring_view(A.nw), A.mode); else f(std::wstring_view(A.nw)); break;
    case SK_16SV: if (m) f(std::u16string_view(A.n16), A.mode); else f(std::u16string_view(A.n16)); break;
    case SK_32SV: if (m) f(std::u32string_view(A.n32), A.mode); else f(std::u32string_view(A.n32)); break;
    case SK_STR_COPY: if (A.nonconst_lvalue) f(static_cast<ST::string &>(*A.s->p())); else f(static_cast<const ST::string &>(*A.s->p())); break;
    case SK_STR_MOVE: f(std::move(*A.s->p())); break;
    default: f(static_cast<const char *>(nullptr)); break;
    }
}

bool u16_strict(const std::u16string &u, Scalars &out);
bool u32_strict(const std::u32string &u);
const char *SK_kind_name(unsigned sk);

} // namespace A
