// generated view of ops.def
#pragma once
#include <cstdint>
namespace A {
enum Kind : uint16_t {
#define OP(n, fam, roles) n,
#include "ops.def"
#undef OP
    KIND__COUNT
};
enum Family { BC, BA, BR, BD, MC, MA, MT, MM, MS, MD, SC, SM, SS, SD, SX, VV, BV, FAM__COUNT };
struct OpMeta { const char *name; Family fam; const char *roles; };
extern const OpMeta META[KIND__COUNT];
}
