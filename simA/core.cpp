// Engine A core: plan text, reference helpers, data sources, invariants, settle logic, pool.
#include "core.h"
#include <thread>
#include <mutex>
#include <condition_variable>
#include <pthread.h>
#include <algorithm>
#include <cstdlib>

namespace A {

const OpMeta META[KIND__COUNT] = {
#define OP(n, fam, roles) {#n, fam, roles},
#include "ops.def"
#undef OP
};

const char *op_name(uint16_t kind) { return kind < KIND__COUNT ? META[kind].name : "?"; }
int op_kind_by_name(const char *name) {
    for (int i = 0; i < KIND__COUNT; i++) if (!std::strcmp(META[i].name, name)) return i;
    return -1;
}

static const char *const PROBE_NAMES[PR__COUNT] = {
    "move_assign_into_short_target", "read_moved_from_after_peer_destroyed", "copy_assign_long_to_long",
    "self_copy_assign_long", "allocate_on_moved_from", "self_move_assign", "move_long_to_short_then_destroy_target_first",
    "copy_assign_across_limit", "allocate_after_clear",
    "stream_grow_inobject_to_heap", "stream_multi_doubling_single_append", "stream_append_after_truncate0_on_heap",
    "stream_move_heap_into_heap", "stream_append_to_moved_from", "stream_move_heap_into_inobject",
    "stream_move_inobject_into_heap", "stream_to_string_on_invalid_utf8",
    "result_equals_source_call", "self_referential_call", "source_mutated_after_derive", "result_destroyed_before_source",
    "throw_with_heap_target", "throw_with_heap_rvalue_argument", "object_reused_after_throw",
    "fault_in_allocate_after_release", "fault_in_vector_growth", "fault_while_constructing_exception",
    "target_empty_after_fault", "target_old_value_after_fault", "fault_in_stream_growth", "fault_in_std_function", "stream_topped_up_before_append",
    "storage_retained_by_static_or_thread_local_object_after_teardown", "step_executed_by_a_helper_thread", "operation_repeated_at_once_after_its_allocation_fault_fired", "step_executed_from_a_destructor_during_stack_unwinding",
};
const char *probe_name(int i) { return (i >= 0 && i < PR__COUNT) ? PROBE_NAMES[i] : "?"; }
const char *exc_name(int e) {
    static const char *const N[] = {"none", "std::bad_alloc", "ST::unicode_error", "ST::codec_error", "ST::bad_format",
                                    "std::out_of_range", "std::invalid_argument", "other"};
    return N[e & 7];
}

// ------------------------------------------------------------------ plan text
std::string plan_to_text(const Plan &p) {
    char buf[256];
    std::string s;
    std::snprintf(buf, sizeof buf, "knobs prop=%d seed=%llu data_seed=%llu pool_cap=%u heap_policy=%u fill_fresh=%u fill_freed=%u text_mix=%u strict=%u\n",
                  p.k.prop, (unsigned long long)p.k.seed, (unsigned long long)p.k.data_seed, p.k.pool_cap, p.k.heap_policy,
                  p.k.fill_fresh, p.k.fill_freed, p.k.text_mix, p.k.strict);
    s += buf;
    for (const Op &o : p.ops) {
        std::snprintf(buf, sizeof buf, "op %s t=%u a=%u b=%u c=%u d=%u fault=%u fa=%u fc=%u thr=%u uw=%u\n", op_name(o.kind), o.t, o.a, o.b, o.c, o.d,
                      o.fault, o.fa, o.fc, o.thr, o.uw);
        s += buf;
    }
    return s;
}

static bool kv(const char *line, const char *key, unsigned long long &out) {
    std::string pat = std::string(" ") + key + "=";
    const char *p = std::strstr(line, pat.c_str());
    if (!p) return false;
    out = std::strtoull(p + pat.size(), nullptr, 10);
    return true;
}

bool plan_from_text(const std::string &text, Plan &p, std::string &err) {
    p = Plan();
    size_t pos = 0;
    while (pos < text.size()) {
        size_t e = text.find('\n', pos);
        if (e == std::string::npos) e = text.size();
        std::string line = text.substr(pos, e - pos);
        pos = e + 1;
        if (line.empty()) continue;
        unsigned long long v;
        if (line.compare(0, 6, "knobs ") == 0) {
            const char *l = line.c_str() + 5;
            if (kv(l, "prop", v)) p.k.prop = (int)v;
            if (kv(l, "seed", v)) p.k.seed = v;
            if (kv(l, "data_seed", v)) p.k.data_seed = v;
            if (kv(l, "pool_cap", v)) p.k.pool_cap = (uint32_t)v;
            if (kv(l, "heap_policy", v)) p.k.heap_policy = (uint32_t)v;
            if (kv(l, "fill_fresh", v)) p.k.fill_fresh = (uint32_t)v;
            if (kv(l, "fill_freed", v)) p.k.fill_freed = (uint32_t)v;
            if (kv(l, "text_mix", v)) p.k.text_mix = (uint32_t)v;
            if (kv(l, "strict", v)) p.k.strict = (uint32_t)v;
        } else if (line.compare(0, 3, "op ") == 0) {
            size_t sp = line.find(' ', 3);
            std::string name = line.substr(3, sp == std::string::npos ? std::string::npos : sp - 3);
            int k = op_kind_by_name(name.c_str());
            if (k < 0) { err = "unknown op " + name; return false; }
            Op o; o.kind = (uint16_t)k;
            const char *l = sp == std::string::npos ? "" : line.c_str() + sp;
            if (kv(l, "t", v)) o.t = (uint8_t)v;
            if (kv(l, "a", v)) o.a = (uint32_t)v;
            if (kv(l, "b", v)) o.b = (uint32_t)v;
            if (kv(l, "c", v)) o.c = (uint32_t)v;
            if (kv(l, "d", v)) o.d = (uint32_t)v;
            if (kv(l, "fault", v)) o.fault = (uint8_t)v;
            if (kv(l, "fa", v)) o.fa = (uint32_t)v;
            if (kv(l, "fc", v)) o.fc = (uint32_t)v;
            if (kv(l, "thr", v)) o.thr = (uint8_t)(v % 3);
            if (kv(l, "uw", v)) o.uw = (uint8_t)(v & 1);
            p.ops.push_back(o);
        } else { err = "bad line: " + line; return false; }
    }
    return true;
}

// ------------------------------------------------------------------ reference text helpers
void enc_utf8(const Scalars &s, std::string &out) {
    out.clear();
    for (char32_t c : s) {
        if (c < 0x80) out += (char)c;
        else if (c < 0x800) { out += (char)(0xC0 | (c >> 6)); out += (char)(0x80 | (c & 0x3F)); }
        else if (c < 0x10000) { out += (char)(0xE0 | (c >> 12)); out += (char)(0x80 | ((c >> 6) & 0x3F)); out += (char)(0x80 | (c & 0x3F)); }
        else { out += (char)(0xF0 | (c >> 18)); out += (char)(0x80 | ((c >> 12) & 0x3F)); out += (char)(0x80 | ((c >> 6) & 0x3F)); out += (char)(0x80 | (c & 0x3F)); }
    }
}
void enc_utf16(const Scalars &s, std::u16string &out) {
    out.clear();
    for (char32_t c : s) {
        if (c < 0x10000) out += (char16_t)c;
        else { char32_t v = c - 0x10000; out += (char16_t)(0xD800 | (v >> 10)); out += (char16_t)(0xDC00 | (v & 0x3FF)); }
    }
}
// strict RFC 3629 scan; returns length of the valid character at p (0 if invalid)
static size_t strict_char(const unsigned char *p, size_t n, char32_t *out) {
    if (n == 0) return 0;
    unsigned char b = p[0];
    if (b < 0x80) { if (out) *out = b; return 1; }
    if (b >= 0xC2 && b <= 0xDF) {
        if (n < 2 || (p[1] & 0xC0) != 0x80) return 0;
        if (out) *out = ((b & 0x1F) << 6) | (p[1] & 0x3F);
        return 2;
    }
    if (b >= 0xE0 && b <= 0xEF) {
        if (n < 3 || (p[1] & 0xC0) != 0x80 || (p[2] & 0xC0) != 0x80) return 0;
        if (b == 0xE0 && p[1] < 0xA0) return 0;
        if (b == 0xED && p[1] > 0x9F) return 0;
        if (out) *out = ((b & 0x0F) << 12) | ((p[1] & 0x3F) << 6) | (p[2] & 0x3F);
        return 3;
    }
    if (b >= 0xF0 && b <= 0xF4) {
        if (n < 4 || (p[1] & 0xC0) != 0x80 || (p[2] & 0xC0) != 0x80 || (p[3] & 0xC0) != 0x80) return 0;
        if (b == 0xF0 && p[1] < 0x90) return 0;
        if (b == 0xF4 && p[1] > 0x8F) return 0;
        if (out) *out = ((b & 0x07) << 18) | ((p[1] & 0x3F) << 12) | ((p[2] & 0x3F) << 6) | (p[3] & 0x3F);
        return 4;
    }
    return 0;
}
bool strict_utf8(const char *p, size_t n) {
    auto u = (const unsigned char *)p;
    size_t i = 0;
    while (i < n) { size_t l = strict_char(u + i, n - i, nullptr); if (!l) return false; i += l; }
    return true;
}
bool decode_utf8_strict(const std::string &s, Scalars &out) {
    out.clear();
    auto u = (const unsigned char *)s.data();
    size_t i = 0, n = s.size();
    while (i < n) { char32_t c; size_t l = strict_char(u + i, n - i, &c); if (!l) return false; out += c; i += l; }
    return true;
}
bool strict_utf8_prefix_boundary(const std::string &s, size_t pos) {
    if (pos >= s.size()) return true;
    return ((unsigned char)s[pos] & 0xC0) != 0x80;
}
bool has_c03_hazard(const char *p, size_t n) {
    auto u = (const unsigned char *)p;
    for (size_t i = 0; i < n; i++) {
        if (u[i] >= 0xF5 && u[i] <= 0xF7) return true;      // 4-byte lead above U+13FFFF
        if (u[i] == 0xF4 && i + 1 < n && u[i + 1] >= 0x90 && u[i + 1] <= 0xBF) return true;
    }
    return false;
}

// ------------------------------------------------------------------ data sources
static char32_t draw_scalar(Rng &r, uint32_t mix) {
    // mix: 0 ascii, 1 NUL-rich, 2 multi-byte-rich, 3 mixed
    uint32_t w = r.below(100);
    if (mix == 0) return 0x20 + r.below(0x5F);
    if (mix == 1) { if (w < 12) return 0; if (w < 80) return 0x20 + r.below(0x5F); }
    if (mix == 2) { if (w < 25) return 0x20 + r.below(0x5F); }
    else if (w < 55) return 0x20 + r.below(0x5F);
    switch (r.below(8)) {
    case 0: return 0x80 + r.below(0x780);                 // 2-byte
    case 1: return 0x800 + r.below(0xD000);               // 3-byte below surrogates
    case 2: return 0xE000 + r.below(0x2000);              // 3-byte above surrogates
    case 3: return 0x10000 + r.below(0x100000);           // 4-byte
    case 4: { static const char32_t edge[] = {0x7F, 0x80, 0x7FF, 0x800, 0xD7FF, 0xE000, 0xFFFD, 0xFFFF, 0x10000, 0x10FFFF, 0xE9, 0x20AC};
              return edge[r.below(sizeof edge / sizeof edge[0])]; }
    case 5: return 0xC0 + r.below(0x40);                  // Latin-1 letters
    case 6: return 1 + r.below(0x1F);                     // control characters
    default: return 0x41 + r.below(26);
    }
}

void build_sources(Ctx &c) {
    Rng r; r.seed(simrt::mix(c.plan->k.data_seed, 0x5157, 1));
    c.sources.clear();
    const int N = 16;
    for (int i = 0; i < N; i++) {
        Source s;
        uint32_t mix = c.plan->k.text_mix == 3 ? r.below(3) : c.plan->k.text_mix;
        if (i == 0) mix = 0;                               // source 0 is always plain ASCII
        size_t len = 720;
        s.sc.reserve(len);
        // homogeneous sources: the extreme expansion ratios between encodings (every character 4, 3 or 2 UTF-8 bytes; every one a surrogate pair)
        const bool homogeneous = c.plan->k.text_mix != 0 && i >= 1 && i <= 3;
        for (size_t k = 0; k < len; k++) {
            char32_t ch = draw_scalar(r, mix);
            if (homogeneous) ch = i == 1 ? (char32_t)(0x10000 + r.below(0x100000)) : i == 2 ? (char32_t)(0x800 + r.below(0xD000)) : (char32_t)(0xA0 + r.below(0x700));
            s.sc += ch;
        }
        c.sources.push_back(s);
    }
}

Scalars take_scalars(const Ctx &c, uint32_t src, uint32_t n, int enc) {
    const Scalars &sc = c.sources[src % c.sources.size()].sc;
    Scalars out;
    size_t units = 0, i = 0;
    while (units < n) {
        char32_t ch = i < sc.size() ? sc[i] : (char32_t)('a' + (units % 26));
        size_t u = enc == 8 ? units8(ch) : enc == 16 ? units16(ch) : 1;
        if (units + u > n) ch = (char32_t)('a' + (units % 26)), u = 1;
        out += ch; units += u; ++i;
    }
    return out;
}
template <> std::basic_string<char> take_units<char>(const Ctx &c, uint32_t src, uint32_t n) {
    std::string o; enc_utf8(take_scalars(c, src, n, 8), o); return o;
}
template <> std::basic_string<char16_t> take_units<char16_t>(const Ctx &c, uint32_t src, uint32_t n) {
    std::u16string o; enc_utf16(take_scalars(c, src, n, 16), o); return o;
}
template <> std::basic_string<char32_t> take_units<char32_t>(const Ctx &c, uint32_t src, uint32_t n) {
    return take_scalars(c, src, n, 32);
}
template <> std::basic_string<wchar_t> take_units<wchar_t>(const Ctx &c, uint32_t src, uint32_t n) {
    Scalars s = take_scalars(c, src, n, 32);
    return std::wstring(s.begin(), s.end());
}

// C18 data faults.  fc = kind | (position selector << 8)
template <> std::string corrupt_units<char>(std::string &u, uint32_t fc) {
    uint32_t kind = fc & 0xFF, psel = fc >> 8;
    std::string before = u;
    const char *what = "";
    size_t pos = u.empty() ? 0 : psel % u.size();
    switch (kind % 6) {
    case 0: what = "stray continuation byte"; if (u.empty()) u += (char)0x80; else u[pos] = (char)0x80; break;
    case 1: what = "byte F8-FF"; if (u.empty()) u += (char)0xFE; else u[pos] = (char)(0xF8 + (psel % 8)); break;
    case 2: what = "lead byte without continuation"; if (u.empty()) u += (char)0xC3; else { u[pos] = (char)0xE2; if (pos + 1 < u.size()) u[pos + 1] = 'x'; } break;
    case 3: what = "multi-byte sequence cut at end"; u += (char)0xE2; u += (char)0x82; break;
    case 4: what = "lead byte at end"; u += (char)0xC3; break;
    default: what = "4-byte sequence cut"; u.insert(pos, "\xF0\x9F\x98", 3); break;
    }
    if (has_c03_hazard(u.data(), u.size())) { u = before; u += (char)0xFF; what = "byte FF at end"; }
    return what;
}
template <> std::string corrupt_units<char16_t>(std::u16string &u, uint32_t fc) {
    uint32_t kind = fc & 0xFF, psel = fc >> 8;
    size_t pos = u.empty() ? 0 : psel % u.size();
    switch (kind % 3) {
    case 0: if (u.empty()) u += (char16_t)0xD800; else u[pos] = 0xD800; if (pos + 1 < u.size() && u[pos + 1] >= 0xDC00 && u[pos + 1] <= 0xDFFF) u[pos + 1] = 'x'; return "unpaired high surrogate";
    case 1: if (u.empty()) u += (char16_t)0xDC00; else { u[pos] = 0xDC00; if (pos + 1 < u.size() && u[pos + 1] >= 0xD800 && u[pos + 1] <= 0xDBFF) u[pos + 1] = 'x'; } return "unpaired low surrogate";
    default: u += (char16_t)0xDBFF; return "high surrogate at end";
    }
}
template <> std::string corrupt_units<char32_t>(std::u32string &u, uint32_t fc) {
    uint32_t kind = fc & 0xFF, psel = fc >> 8;
    size_t pos = u.empty() ? 0 : psel % u.size();
    char32_t bad = (kind % 2) ? 0x110000 : 0xFFFFFFFFu;
    if (u.empty()) u += bad; else u[pos] = bad;
    return "UTF-32 unit above 10FFFF";
}
template <> std::string corrupt_units<wchar_t>(std::wstring &u, uint32_t fc) {
    std::u32string t(u.begin(), u.end());
    std::string w = corrupt_units<char32_t>(t, fc);
    u.assign(t.begin(), t.end());
    return w;
}

size_t resolve_code(uint32_t code, size_t size) {
    if (code < 1000) return code;
    switch (code) {
    case 1000: return size;
    case 1001: return size ? size - 1 : 0;
    case 1002: return size + 1;
    case 1003: return size / 2;
    case 1004: return ST_AUTO_SIZE;
    case 1005: return 2 * size + 2;
    default: return size;
    }
}
long long int_value(uint32_t i) {
    static const long long T[] = {0, 1, -1, 7, -9, 10, 99, -100, 255, 256, 4096, -4097, 12345, -12345, 32767, -32767, 65535, 65536,
                                  1000000007LL, -999999999LL, 2147483647LL, -2147483647LL, 4294967295LL, 4294967296LL,
                                  9223372036854775807LL, -9223372036854775807LL, 1234567890123456789LL, -1234567890123456LL,
                                  -2147483648LL, -9223372036854775807LL - 1, -32768};      // (appended: the most negative int / long long / short)
#ifdef SIMRT_ASAN
    return T[i % (sizeof T / sizeof T[0] - 3)];      // the sanitizer build stays away from the most negative values (std::abs() on them is C12's finding, section 3.3)
#else
    return T[i % (sizeof T / sizeof T[0])];
#endif
}
double dbl_value(uint32_t i) {
    static const double T[] = {0.0, 1.0, -1.0, 1.5, -2.25, 3.14159, 16384.0, 0.0234, 1e10, 1e-5, 123456789.125, -0.5e-7, 99999.5,
                               1e14, -1e14, 2.5e-300, 1.0 / 3.0, __builtin_inf(), -__builtin_inf(), __builtin_nan(""), -__builtin_nan("")};
    return T[i % (sizeof T / sizeof T[0])];
}
std::string latin1_ref(const std::string &b) {
    std::string o;
    for (unsigned char ch : b) { if (ch < 0x80) o += (char)ch; else { o += (char)(0xC0 | (ch >> 6)); o += (char)(0x80 | (ch & 0x3F)); } }
    return o;
}

// ------------------------------------------------------------------ violations
void set_viol(Ctx &c, const char *cls, const std::string &msg) {
    if (c.viol.set) return;
    c.viol.set = true; c.viol.cls = cls; c.viol.msg = msg; c.viol.site = c.site;
}

// ------------------------------------------------------------------ object storage
// harness-owned storage for library objects, with guard bytes on both sides in the plain variant (an object that writes
// outside its own footprint is detected deterministically; the asan variant leaves this to AddressSanitizer)
#ifdef SIMRT_ASAN
static const size_t OG = 0;
#else
static const size_t OG = 64;
#endif
void *obj_alloc(size_t n) {
    char *p = (char *)std::malloc(n + 2 * OG + sizeof(size_t) * 2);
    if (!p) std::abort();
    std::memcpy(p, &n, sizeof n);
    char *u = p + sizeof(size_t) * 2 + OG;
    std::memset(u - OG, 0xFB, OG); std::memset(u, 0xCB, n); std::memset(u + n, 0xFB, OG);
    return u;
}
void obj_free(void *p) { std::free((char *)p - OG - sizeof(size_t) * 2); }
bool obj_guard_intact(const void *p) {
    const unsigned char *u = (const unsigned char *)p; size_t n; std::memcpy(&n, u - OG - sizeof(size_t) * 2, sizeof n);
    for (size_t i = 0; i < OG; i++) if (u[-(ptrdiff_t)OG + (ptrdiff_t)i] != 0xFB || u[n + i] != 0xFB) return false;
    return true;
}

template <class T> BufObj<T> *add_buf(Ctx &c, void *mem) {
    auto *o = new BufObj<T>(); o->mem = mem; o->serial = c.next_serial++; c.bufs<T>().push_back(o); return o;
}
template BufObj<char> *add_buf<char>(Ctx &, void *);
template BufObj<wchar_t> *add_buf<wchar_t>(Ctx &, void *);
template BufObj<char16_t> *add_buf<char16_t>(Ctx &, void *);
template BufObj<char32_t> *add_buf<char32_t>(Ctx &, void *);
StrObj *add_str(Ctx &c, void *mem) { auto *o = new StrObj(); o->mem = mem; o->serial = c.next_serial++; c.strs.push_back(o); return o; }
SsObj *add_ss(Ctx &c, void *mem) { auto *o = new SsObj(); o->mem = mem; o->serial = c.next_serial++; c.sss.push_back(o); return o; }
VecObj *add_vec(Ctx &c, void *mem) { auto *o = new VecObj(); o->mem = mem; o->serial = c.next_serial++; c.vecs.push_back(o); return o; }

template <class V> static void unlink(V &v, ObjBase *o) {
    for (size_t i = 0; i < v.size(); i++) if (v[i] == o) { v.erase(v.begin() + i); return; }
}
void remove_obj(Ctx &c, ObjBase *o) {
    unlink(c.b8, o); unlink(c.bw, o); unlink(c.b16, o); unlink(c.b32, o); unlink(c.strs, o); unlink(c.sss, o); unlink(c.vecs, o);
}

template <class T> static void destroy_bufs(std::vector<BufObj<T> *> &v) {
    for (auto *o : v) { { simrt::SutScope s; o->p()->~buffer(); } obj_free(o->mem); delete o; }
    v.clear();
}
void destroy_all(Ctx &c) {
    simrt::heap_op_begin(0);
    destroy_fmt_slots(c);
    // vectors first or last does not matter for correct code; use creation-independent fixed order
    for (auto *o : c.vecs) { { simrt::SutScope s; o->p()->~vector(); } obj_free(o->mem); delete o; }
    c.vecs.clear();
    for (auto *o : c.strs) { { simrt::SutScope s; o->p()->~string(); } obj_free(o->mem); delete o; }
    c.strs.clear();
    for (auto *o : c.sss) { { simrt::SutScope s; o->p()->~string_stream(); } obj_free(o->mem); delete o; }
    c.sss.clear();
    destroy_bufs(c.b8); destroy_bufs(c.bw); destroy_bufs(c.b16); destroy_bufs(c.b32);
}

void note_moved(Ctx &c, ObjBase *src, ObjBase *dst, bool long_to_short) {
    src->st = M_ADOPT; src->moved_from = true; src->peer = dst->serial; src->peer_flags = long_to_short ? 1 : 0;
    dst->moved_from = false;
    c.touched_moved_from = true;
}
template <class V> static void peers(Ctx &c, V &v, ObjBase *dying) {
    for (auto *o : v)
        if (o != dying && o->moved_from && o->peer == dying->serial) {
            probe(c, PR_READ_MOVED_FROM_AFTER_PEER_DESTROYED);
            if (o->peer_flags & 1) probe(c, PR_MOVE_LONG_TO_SHORT_DESTROY_TARGET_FIRST);
        }
}
template <class V> static bool has_child(V &v, const ObjBase *o) { for (auto *q : v) if (q != o && q->parent == o->serial) return true; return false; }
template <class V> static bool is_live(V &v, uint64_t serial) { for (auto *q : v) if (q->serial == serial) return true; return false; }
void note_mutating(Ctx &c, ObjBase *o) {
    if (has_child(c.strs, o) || has_child(c.b8, o) || has_child(c.bw, o) || has_child(c.b16, o) || has_child(c.b32, o) || has_child(c.vecs, o))
        probe(c, PR_SOURCE_MUTATED_AFTER_DERIVE);
}
void note_destroying(Ctx &c, ObjBase *o) {
    if (o->moved_from) c.touched_moved_from = true;
    if (o->parent && (is_live(c.strs, o->parent) || is_live(c.b8, o->parent))) probe(c, PR_RESULT_DESTROYED_BEFORE_SOURCE);
    note_mutating(c, o);
    peers(c, c.b8, o); peers(c, c.bw, o); peers(c, c.b16, o); peers(c, c.b32, o); peers(c, c.strs, o); peers(c, c.sss, o);
}

// any string with a definite value that does not reach the known assertion of a not-applicable property (C03, section 3.3): the conversions are
// const calls on malformed receivers too - their result is adopted, ownership and bounds are not
StrObj *pick_str_nohazard(Ctx &c, uint32_t sel) {
    if (c.strs.empty()) return nullptr;
    size_t n = c.strs.size();
    for (size_t k = 0; k < n; k++) {       // a malformed one first, if the pool has one
        StrObj *o = c.strs[(sel + k) % n];
        if (o->st == M_DEFINITE && !has_c03_hazard(o->model.data(), o->model.size()) && !strict_utf8(o->model.data(), o->model.size())) return o;
    }
    for (size_t k = 0; k < n; k++) {
        StrObj *o = c.strs[(sel + k) % n];
        if (o->st == M_DEFINITE && !has_c03_hazard(o->model.data(), o->model.size())) return o;
    }
    return nullptr;
}
StrObj *pick_str_wf(Ctx &c, uint32_t sel) {
    if (c.strs.empty()) return nullptr;
    size_t n = c.strs.size();
    for (size_t k = 0; k < n; k++) {
        StrObj *o = c.strs[(sel + k) % n];
        if (o->st == M_DEFINITE && strict_utf8(o->model.data(), o->model.size())) return o;
    }
    return nullptr;
}
BufObj<char> *pick_b8_text(Ctx &c, uint32_t sel) {
    if (c.b8.empty()) return nullptr;
    size_t n = c.b8.size();
    for (size_t k = 0; k < n; k++) {
        BufObj<char> *o = c.b8[(sel + k) % n];
        if (o->st == M_DEFINITE && !has_c03_hazard(o->model.data(), o->model.size())) return o;
    }
    return nullptr;
}

// ------------------------------------------------------------------ storage classification
struct Foot { const char *lo, *hi; uint64_t serial; };

static void collect_footprints(const Ctx &c, std::vector<Foot> &out) {
    auto add = [&](const void *p, size_t n, uint64_t s) { out.push_back({(const char *)p, (const char *)p + n, s}); };
    for (auto *o : c.b8) add(o->mem, sizeof(ST::buffer<char>), o->serial);
    for (auto *o : c.bw) add(o->mem, sizeof(ST::buffer<wchar_t>), o->serial);
    for (auto *o : c.b16) add(o->mem, sizeof(ST::buffer<char16_t>), o->serial);
    for (auto *o : c.b32) add(o->mem, sizeof(ST::buffer<char32_t>), o->serial);
    for (auto *o : c.strs) add(o->mem, sizeof(ST::string), o->serial);
    for (auto *o : c.sss) add(o->mem, sizeof(ST::string_stream), o->serial);
    for (auto *o : c.vecs) {
        auto *v = o->p();
        if (!v->empty()) add(v->data(), v->size() * sizeof(ST::string), o->serial);
    }
}

struct Checker {
    Ctx &c;
    std::vector<Foot> feet;
    struct HeapUse { const void *base; uint64_t serial; };
    std::vector<HeapUse> uses;
    explicit Checker(Ctx &cc) : c(cc) { collect_footprints(c, feet); }

    const char *role_cls(const ObjBase &o) const {
        if (o.after_throw) return o.role == ROLE_RVALUE ? "rvalue_consumed_after_throw" : "state_changed_after_throw";
        if (o.role == ROLE_TARGET || o.role == ROLE_NEW || o.role == ROLE_RVALUE) return "value_mismatch";
        return "interference";
    }
    std::string who(const char *kind, const ObjBase &o) const {
        char b[96]; std::snprintf(b, sizeof b, "%s#%llu", kind, (unsigned long long)o.serial); return b;
    }

    // returns false when the storage is unusable (do not read through it)
    bool storage(const char *kind, ObjBase &o, const void *data, size_t size, size_t esz, bool terminated,
                 const void *obj, size_t objsize, size_t limit /*0 = no threshold rule*/) {
        const char *d = (const char *)data, *lo = (const char *)obj, *hi = lo + objsize;
        size_t need = (size + (terminated ? 1 : 0)) * esz;
        if (d >= lo && d < hi) {
            if (d + need > hi) { set_viol(c, "storage_class", who(kind, o) + ": size " + std::to_string(size) + " does not fit the in-object storage it points at"); return false; }
            if (limit && size >= limit) { set_viol(c, "storage_class", who(kind, o) + ": long content (size " + std::to_string(size) + ") kept inside the object"); return false; }
            return true;
        }
        simrt::BlockInfo bi;
        if (simrt::heap_lookup(data, &bi)) {
            if (bi.size < need) { set_viol(c, "storage_class", who(kind, o) + ": heap block of " + std::to_string(bi.size) + " bytes too small for size " + std::to_string(size)); return false; }
            if (limit && size < limit) { set_viol(c, "storage_class", who(kind, o) + ": short content (size " + std::to_string(size) + ") kept on the heap"); return false; }
            uses.push_back({data, o.serial});
            return true;
        }
        for (const Foot &f : feet)
            if (d >= f.lo && d < f.hi) {
                set_viol(c, "not_exclusive", who(kind, o) + ": data() points into the footprint of object #" + std::to_string(f.serial));
                return false;
            }
        if (simrt::heap_was_freed(data)) set_viol(c, "dangling", who(kind, o) + ": data() points at a released heap block");
        else set_viol(c, "dangling", who(kind, o) + ": data() is neither inside the object nor the base of a live heap block");
        return false;
    }

    template <class T>
    void value(const char *kind, ObjBase &o, std::basic_string<T> &model, const T *data, size_t size, bool terminated) {
        if (c.viol.set) return;
        if (terminated && data[size] != 0) { set_viol(c, "terminator_missing", who(kind, o) + ": element after the last one is not NUL (size " + std::to_string(size) + ")"); return; }
        bool same = size == model.size() && (size == 0 || std::char_traits<T>::compare(data, model.data(), size) == 0);
        switch (o.st) {
        case M_DEFINITE:
            if (!same) {
                size_t k = 0; while (k < size && k < model.size() && data[k] == model[k]) ++k;
                set_viol(c, role_cls(o), who(kind, o) + ": holds " + std::to_string(size) + " elements, model says " + std::to_string(model.size()) +
                                             ", first difference at index " + std::to_string(k));
                return;
            }
            break;
        case M_OLD_OR_EMPTY:
            if (same) probe(c, PR_FAULT_TARGET_OLD_AFTER);
            else if (size == 0) { probe(c, PR_FAULT_TARGET_EMPTY_AFTER); model.clear(); }
            else { set_viol(c, "target_not_old_or_empty", who(kind, o) + ": after the failed allocation holds " + std::to_string(size) + " elements that are neither the previous value nor empty"); return; }
            o.st = M_DEFINITE;
            break;
        case M_ADOPT: case M_VALID_ONLY:
            model.assign(data, size); o.st = M_DEFINITE;
            break;
        }
        if (o.ptr_known && (o.role == ROLE_NONE || o.role == ROLE_CONST) && (const void *)data != o.last_ptr) {
            set_viol(c, "interference", who(kind, o) + ": data() pointer changed although the object was not modified"); return;
        }
        o.last_ptr = data; o.ptr_known = true;
    }

    template <class T> void bufs(std::vector<BufObj<T> *> &v, bool values) {
        for (auto *o : v) {
            if (c.viol.set) return;
            const T *d = o->p()->data(); size_t n = o->p()->size();
            if (!values) { if (!storage(ET<T>::name(), *o, d, n, sizeof(T), true, o->mem, sizeof(ST::buffer<T>), ET<T>::limit)) return; }
            else value<T>(ET<T>::name(), *o, o->model, d, n, true);
        }
    }
    void pass(bool values) {
        bufs(c.b8, values); bufs(c.bw, values); bufs(c.b16, values); bufs(c.b32, values);
        for (auto *o : c.strs) {
            if (c.viol.set) return;
            const char *d = o->p()->c_str(); size_t n = o->p()->size();
            if (!values) { if (!storage("string", *o, d, n, 1, true, o->mem, sizeof(ST::string), ET<char>::limit)) return; }
            else value<char>("string", *o, o->model, d, n, true);
        }
        for (auto *o : c.sss) {
            if (c.viol.set) return;
            const char *d = o->p()->raw_buffer(); size_t n = o->p()->size();
            if (!values) { if (!storage("stream", *o, d, n, 1, false, o->mem, sizeof(ST::string_stream), 0)) return; }
            else value<char>("stream", *o, o->model, d, n, false);
        }
        for (auto *o : c.vecs) {
            if (c.viol.set) return;
            auto *v = o->p();
            if (o->st == M_ADOPT) { o->model.assign(v->size(), std::string()); o->elem_ptr.assign(v->size(), nullptr); }
            if (v->size() != o->model.size()) { set_viol(c, "interference", who("vector", *o) + ": element count changed"); return; }
            for (size_t i = 0; i < v->size(); i++) {
                const ST::string &e = (*v)[i];
                ObjBase tmp = *o; tmp.ptr_known = false;
                if (!values) { if (!storage("vector element", *o, e.c_str(), e.size(), 1, true, &e, sizeof(ST::string), ET<char>::limit)) return; }
                else {
                    tmp.st = o->st == M_ADOPT ? M_ADOPT : M_DEFINITE;
                    if (o->st != M_ADOPT && o->elem_ptr[i]) { tmp.ptr_known = true; tmp.last_ptr = o->elem_ptr[i]; }
                    value<char>("vector element", tmp, o->model[i], e.c_str(), e.size(), true);
                    o->elem_ptr[i] = e.c_str();
                }
            }
            if (values) o->st = M_DEFINITE;
        }
    }
    void exclusivity() {
        if (c.viol.set) return;
        std::sort(uses.begin(), uses.end(), [](const HeapUse &a, const HeapUse &b) { return a.base < b.base || (a.base == b.base && a.serial < b.serial); });
        for (size_t i = 1; i < uses.size(); i++)
            if (uses[i].base == uses[i - 1].base) {
                uint64_t x = std::min(uses[i].serial, uses[i - 1].serial), y = std::max(uses[i].serial, uses[i - 1].serial);
                set_viol(c, "not_exclusive", "objects #" + std::to_string(x) + " and #" + std::to_string(y) + " use the same heap block");
                return;
            }
    }
};

static void drain_heap(Ctx &c) {
    char d[200];
    simrt::HeapViolation hv = simrt::heap_take_violation(d, sizeof d);
    if (hv == simrt::HV_NONE) return;
    const char *cls = hv == simrt::HV_DOUBLE_FREE ? "double_free" : hv == simrt::HV_INVALID_FREE ? "invalid_free" : hv == simrt::HV_OVERRUN ? "out_of_bounds_write" : "form_mismatch";
    set_viol(c, cls, d);
}
template <class V> static void guards(Ctx &c, V &v, const char *kind) {
    for (auto *o : v) if (!c.viol.set && !obj_guard_intact(o->mem)) set_viol(c, "out_of_bounds_write", std::string(kind) + "#" + std::to_string(o->serial) + ": bytes just outside the object's own footprint were overwritten");
}

template <class V> static void reset_roles(V &v) { for (auto *o : v) { o->role = ROLE_NONE; o->after_throw = false; } }

void check_all(Ctx &c) {
    if (c.stats) c.stats->checks++;
    drain_heap(c);
    if (!c.viol.set) { char d[160]; if (!simrt::heap_redzones_intact(d, sizeof d)) set_viol(c, "out_of_bounds_write", d); }
    if (!c.viol.set) { guards(c, c.b8, "char"); guards(c, c.bw, "wchar_t"); guards(c, c.b16, "char16_t"); guards(c, c.b32, "char32_t"); guards(c, c.strs, "string"); guards(c, c.sss, "stream"); }
    if (!c.viol.set) {
        Checker k(c);
        k.pass(false);       // storage of every object first: nothing is read through a bad pointer
        k.exclusivity();
        if (!c.viol.set) k.pass(true);
    }
    reset_roles(c.b8); reset_roles(c.bw); reset_roles(c.b16); reset_roles(c.b32);
    reset_roles(c.strs); reset_roles(c.sss); reset_roles(c.vecs);
}

// ------------------------------------------------------------------ budgets, settle
uint64_t op_budget(const Ctx &c) {
    update_fatal_ctx(c);
    // bytes of every pool object that takes part in the operation count towards the budget, whatever the op declared itself
    uint64_t involved = 0;
    for (auto *o : c.strs) if (o->role != ROLE_NONE) involved += o->model.size();
    for (auto *o : c.sss) if (o->role != ROLE_NONE) involved += o->model.size();
    for (auto *o : c.b8) if (o->role != ROLE_NONE) involved += o->model.size();
    for (auto *o : c.bw) if (o->role != ROLE_NONE) involved += o->model.size() * 4;
    for (auto *o : c.b16) if (o->role != ROLE_NONE) involved += o->model.size() * 2;
    for (auto *o : c.b32) if (o->role != ROLE_NONE) involved += o->model.size() * 4;
    for (auto *o : c.vecs) if (o->role != ROLE_NONE) for (auto &e : o->model) involved += e.size() + 16;
    return 200000ull + 4000ull * (c.budget_bytes + 2 * involved);
}

template <class V, class F> static void each(V &v, F &&f) { for (auto *o : v) f(*o); }
template <class F> static void each_obj(Ctx &c, F &&f) {
    each(c.b8, f); each(c.bw, f); each(c.b16, f); each(c.b32, f); each(c.strs, f); each(c.sss, f); each(c.vecs, f);
}

bool settle(Ctx &c, const Op &op, ExcKind ex, unsigned allowed) {
    bool fired = c.fired;
    const bool plain_copy = c.plain_copy; c.plain_copy = false;
    if (c.stats) {
        if (op.fault & F_ALLOC) { c.stats->faults_alloc_planned++; if (fired) c.stats->faults_alloc_fired++; }
        if (op.fault & F_CORRUPT) { c.stats->faults_corrupt_planned++; if (ex != EX_NONE && ex != EX_BAD_ALLOC) c.stats->faults_corrupt_thrown++; }
    }
    c.sig.u8((uint8_t)(0xE0 + ex));
    if (c.returned_ref) {
        const char *r = static_cast<const char *>(c.returned_ref); c.returned_ref = nullptr;
        auto inside = [&](const ObjBase &o, size_t sz) { const char *m = static_cast<const char *>(o.mem); return m && r >= m && r < m + sz; };
        bool alias = false;
        for (auto *o : c.b8) alias |= inside(*o, sizeof(ST::char_buffer));
        for (auto *o : c.bw) alias |= inside(*o, sizeof(ST::wchar_buffer));
        for (auto *o : c.b16) alias |= inside(*o, sizeof(ST::utf16_buffer));
        for (auto *o : c.b32) alias |= inside(*o, sizeof(ST::utf32_buffer));
        for (auto *o : c.strs) alias |= inside(*o, sizeof(ST::string));
        for (auto *o : c.sss) alias |= inside(*o, sizeof(ST::string_stream));
        if (alias) set_viol(c, "not_exclusive", "the operation returned a reference to (part of) a live object instead of a value that owns its storage");
    }
    if (fired && (op.fault & F_CORRUPT)) probe(c, PR_FAULT_EXCEPTION_CTOR);
    each_obj(c, [&](ObjBase &o) { if (o.role != ROLE_NONE && o.survived_throw) { probe(c, PR_THROW_THEN_REUSED); o.survived_throw = false; } });
    if (ex == EX_NONE) {
        if (fired) set_viol(c, "bad_alloc_not_propagated", "an allocation failed inside the operation but it returned normally");
        each_obj(c, [](ObjBase &o) { if (o.role == ROLE_TARGET || o.role == ROLE_RVALUE) o.ptr_known = false; });
        return true;
    }
    if (ex == EX_BAD_ALLOC) {
        if (!fired) { set_viol(c, "unexpected_exception", "std::bad_alloc thrown although no allocation fault was injected"); return false; }
        each_obj(c, [&](ObjBase &o) {
            if (o.role == ROLE_TARGET) { if (o.st == M_DEFINITE) o.st = M_OLD_OR_EMPTY; o.ptr_known = false; }
            else if (o.role == ROLE_RVALUE) { o.st = M_ADOPT; o.ptr_known = false; }
        });
        return false;
    }
    if (fired) {
        set_viol(c, "bad_alloc_not_propagated", std::string("an allocation failed inside the operation but ") + exc_name(ex) + " reached the caller instead of std::bad_alloc");
        return false;
    }
    if (ex == EX_UNICODE && !(allowed & bit(ex)) && !plain_copy) {
        // an operation may reject a string operand that is itself not well-formed UTF-8 (e.g. replace() re-validates)
        for (auto *o : c.strs) if (o->role != ROLE_NONE && !strict_utf8(o->model.data(), o->model.size())) allowed |= bit(EX_UNICODE);
    }
    if (!(allowed & bit(ex))) {
        set_viol(c, "unexpected_exception", std::string(exc_name(ex)) + " thrown by an operation whose inputs are valid");
        return false;
    }
    each_obj(c, [&](ObjBase &o) {
        if (o.role == ROLE_TARGET || o.role == ROLE_RVALUE) {
            o.after_throw = true; o.ptr_known = false; o.survived_throw = true;
        }
    });
    return false;
}


// ------------------------------------------------------------------ helper threads (who executes a step)
namespace {
struct Helper { std::thread th; std::mutex m; std::condition_variable cv; const std::function<void()> *job = nullptr; bool done = false; };
Helper *g_helpers[2] = {nullptr, nullptr};
void helper_main(Helper *h) {
    simrt::heap_note_thread_roots();      // this thread's thread-local storage is a root of the retained-versus-leaked scan too
    std::unique_lock<std::mutex> lk(h->m);
    for (;;) {
        h->cv.wait(lk, [&] { return h->job != nullptr; });
        (*h->job)(); h->job = nullptr; h->done = true;
        h->cv.notify_all();
    }
}
void forget_helpers_in_child() { g_helpers[0] = g_helpers[1] = nullptr; simrt::heap_forget_thread_roots(); }      // fork() clones the calling thread only: a child makes its own helpers
}
void on_helper(int k, const std::function<void()> &fn) {
    static bool atfork = (pthread_atfork(nullptr, nullptr, forget_helpers_in_child), true); (void)atfork;
    Helper *&h = g_helpers[(k - 1) & 1];
    if (!h) { h = new Helper(); h->th = std::thread(helper_main, h); h->th.detach(); }
    std::unique_lock<std::mutex> lk(h->m);
    h->done = false; h->job = &fn;
    h->cv.notify_all();
    h->cv.wait(lk, [&] { return h->done; });
}
} // namespace A
