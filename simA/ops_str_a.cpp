// Engine A: ST::string construction and mutation (C04, C18, C19).
#include "textarg.h"
#include <filesystem>

namespace A {

static const char *const SK_NAMES[SK__COUNT] = {
    "cstr", "ptrlen", "char_buffer&", "char_buffer&&", "std::string", "string_view", "char8_t*", "u8string", "u8string_view",
    "wchar_t*", "wchar_t*,n", "char16_t*", "char16_t*,n", "char32_t*", "char32_t*,n", "wchar_buffer", "utf16_buffer", "utf32_buffer",
    "wstring", "u16string", "u32string", "wstring_view", "u16string_view", "u32string_view", "string&", "string&&", "nullptr"};
const char *TextArg::kind_name() const { return SK_NAMES[kind % SK__COUNT]; }

bool u16_strict(const std::u16string &u, Scalars &out) {
    out.clear();
    for (size_t i = 0; i < u.size(); i++) {
        char32_t ch = u[i];
        if (ch >= 0xD800 && ch <= 0xDBFF) {
            if (i + 1 >= u.size() || u[i + 1] < 0xDC00 || u[i + 1] > 0xDFFF) return false;
            ch = 0x10000 + ((ch & 0x3FF) << 10) + (u[i + 1] & 0x3FF); ++i;
        } else if (ch >= 0xDC00 && ch <= 0xDFFF) return false;
        out += ch;
    }
    return true;
}
bool u32_strict(const std::u32string &u) {
    for (char32_t ch : u) if (ch > 0x10FFFF || (ch >= 0xD800 && ch <= 0xDFFF)) return false;
    return true;
}
template <class T> static std::basic_string<T> cut_nul(const std::basic_string<T> &s) {
    size_t p = s.find(T(0)); return p == std::basic_string<T>::npos ? s : s.substr(0, p);
}

bool prepare_text(Ctx &c, const Op &op, unsigned kind, uint32_t srcsel, uint32_t n, unsigned modebits, bool single, TextArg &A) {
    A.kind = kind % SK__COUNT; A.single = single; A.nonconst_lvalue = (op.d >> 17) & 1;
    switch (modebits & 3) {
    case 1: A.mode = ST::substitute_invalid; A.explicit_mode = true; break;
    case 2: A.mode = ST::assume_valid; A.explicit_mode = true; break;
    case 3: A.mode = ST::check_validity; A.explicit_mode = true; break;
    default: A.mode = ST::check_validity; A.explicit_mode = false; break;
    }
    bool corrupt = (op.fault & F_CORRUPT) != 0;
    if (corrupt && c.prop == P_C04) {
        // value-semantics histories take malformed text only where no exception can follow (substitute mode handed over explicitly):
        // what a throwing call leaves behind is C18's business, a replacement-character result next to its neighbours is C04's
        switch (A.kind) {
        case SK_CSTR: case SK_C8: case SK_W: case SK_16: case SK_32: case SK_STR_COPY: case SK_STR_MOVE: case SK_NULL: corrupt = false; break;
        default: corrupt = !single && A.explicit_mode && A.mode == ST::substitute_invalid; break;
        }
    }
    Scalars sc;
    auto from8 = [&](bool cut) {
        A.n8 = take_units<char>(c, srcsel, n);
        if (corrupt) { corrupt_units<char>(A.n8, op.fc); A.corrupted = true; }
        if (cut) A.n8 = cut_nul(A.n8);
        A.n8u.assign((const char8_t *)A.n8.data(), A.n8.size());
        A.wf = strict_utf8(A.n8.data(), A.n8.size());
        A.expect = A.n8; A.in_bytes = A.n8.size(); A.cls = cls_letter(A.n8.size(), 16);
    };
    auto from32 = [&](bool cut) {
        A.n32 = take_units<char32_t>(c, srcsel, n);
        if (corrupt) { corrupt_units<char32_t>(A.n32, op.fc); A.corrupted = true; }
        if (cut) A.n32 = cut_nul(A.n32);
        A.nw.assign(A.n32.begin(), A.n32.end());
        A.wf = u32_strict(A.n32);
        if (A.wf) enc_utf8(A.n32, A.expect);
        A.in_bytes = A.n32.size() * 4; A.cls = cls_letter(A.n32.size(), 12);
    };
    auto from16 = [&](bool cut) {
        A.n16 = take_units<char16_t>(c, srcsel, n);
        if (corrupt) { corrupt_units<char16_t>(A.n16, op.fc); A.corrupted = true; }
        if (cut) A.n16 = cut_nul(A.n16);
        A.wf = u16_strict(A.n16, sc);
        if (A.wf) enc_utf8(sc, A.expect);
        A.in_bytes = A.n16.size() * 2; A.cls = cls_letter(A.n16.size(), 16);
    };
    switch (A.kind) {
    case SK_CSTR: case SK_C8: from8(true); break;
    case SK_PTRLEN: from8(single); break;
    case SK_STD: case SK_SV: case SK_U8STR: case SK_U8SV: from8(false); break;
    case SK_W: case SK_32: from32(true); break;
    case SK_WN: case SK_32N: from32(single); break;
    case SK_WSTR: case SK_32STR: case SK_WSV: case SK_32SV: from32(false); break;
    case SK_16: from16(true); break;
    case SK_16N: from16(single); break;
    case SK_16STR: case SK_16SV: from16(false); break;
    case SK_CBUF_L: case SK_CBUF_R:
        // (bit 16 of the form operand: the most recently created char buffer - lets the generator pair "make a buffer like this" with "hand it over")
        A.b8 = ((op.d >> 16) & 1) && !c.b8.empty() ? pick_b8_text(c, (uint32_t)c.b8.size() - 1) : pick_b8_text(c, srcsel);
        if (!A.b8) return false;
        A.pool_obj = A.b8; A.wf = strict_utf8(A.b8->model.data(), A.b8->model.size()); A.expect = A.b8->model;
        A.in_bytes = A.b8->model.size(); A.cls = cls_letter(A.b8->model.size(), 16);
        break;
    case SK_WBUF: {
        A.bw = pick(c.bw, srcsel);
        if (!A.bw) return false;
        A.pool_obj = A.bw;
        std::u32string t(A.bw->model.begin(), A.bw->model.end());
        A.wf = u32_strict(t); if (A.wf) enc_utf8(t, A.expect);
        A.in_bytes = t.size() * 4; A.cls = cls_letter(t.size(), 12);
        break;
    }
    case SK_16BUF:
        A.b16 = pick(c.b16, srcsel);
        if (!A.b16) return false;
        A.pool_obj = A.b16; A.wf = u16_strict(A.b16->model, sc); if (A.wf) enc_utf8(sc, A.expect);
        A.in_bytes = A.b16->model.size() * 2; A.cls = cls_letter(A.b16->model.size(), 16);
        break;
    case SK_32BUF:
        A.b32 = pick(c.b32, srcsel);
        if (!A.b32) return false;
        A.pool_obj = A.b32; A.wf = u32_strict(A.b32->model); if (A.wf) enc_utf8(A.b32->model, A.expect);
        A.in_bytes = A.b32->model.size() * 4; A.cls = cls_letter(A.b32->model.size(), 12);
        break;
    case SK_STR_COPY: case SK_STR_MOVE:
        A.s = pick(c.strs, srcsel);
        if (!A.s) return false;
        A.pool_obj = A.s; A.wf = true; A.expect = A.s->model;     // ST::string arguments are never re-validated
        A.in_bytes = A.s->model.size(); A.cls = cls_letter(A.s->model.size(), 16);
        break;
    default: A.kind = SK_NULL; A.wf = true; A.expect.clear(); break;
    }
    return true;
}

static void note_sig(Ctx &c, const Op &op, const std::string &extra) {
    c.site = std::string(op_name(op.kind)) + "(" + extra + ")";
    c.sig.u8((uint8_t)op.kind); c.sig.str(extra.c_str());
}
static char cl(const StrObj *o) { return cls_letter(o->model.size(), 16); }

static void make_room(Ctx &c, const ObjBase *keep = nullptr, const ObjBase *keep2 = nullptr) {
    auto &v = c.strs;
    while (v.size() >= c.plan->k.pool_cap && v.size() > 2) {
        size_t i = (size_t)(c.step * 7 + 3) % v.size();
        while (v[i] == keep || v[i] == keep2) i = (i + 1) % v.size();
        StrObj *o = v[i];
        note_destroying(c, o);
        { simrt::SutScope s; o->p()->~string(); }
        obj_free(o->mem); remove_obj(c, o); delete o;
    }
}
void str_make_room(Ctx &c, const ObjBase *keep, const ObjBase *keep2) { make_room(c, keep, keep2); }

// roles and probes common to every op that consumes a TextArg
static void arg_roles(Ctx &c, const TextArg &A, const StrObj *target) {
    if (!A.pool_obj) return;
    if (A.pool_obj->moved_from) c.touched_moved_from = true;
    if (A.kind == SK_CBUF_R || A.kind == SK_STR_MOVE) { if (A.pool_obj != target) as_rvalue(A.pool_obj); }
    else as_const(A.pool_obj);
}
static void arg_after_success(Ctx &c, TextArg &A, ObjBase *target) {
    if ((A.kind == SK_CBUF_R || A.kind == SK_STR_MOVE) && A.pool_obj && A.pool_obj != target) {
        // the argument may or may not have been moved from (substitute_invalid copies): value unspecified but valid
        A.pool_obj->st = M_ADOPT; A.pool_obj->moved_from = true; A.pool_obj->peer = target ? target->serial : 0; A.pool_obj->peer_flags = 0;
        c.touched_moved_from = true;
    }
}
static void throw_probes(Ctx &c, ExcKind ex, const TextArg &A, const StrObj *target) {
    if (ex == EX_NONE || ex == EX_BAD_ALLOC) return;
    if (target && target->model.size() >= 16) probe(c, PR_THROW_WITH_HEAP_TARGET);
    if ((A.kind == SK_CBUF_R || A.kind == SK_STR_MOVE) && A.in_bytes >= 16) probe(c, PR_THROW_WITH_HEAP_RVALUE);
}

bool exec_str_a(Ctx &c, const Op &op) {
    Family fam = META[op.kind].fam;
    if (fam != SC && fam != SM && fam != SX) return false;
    auto &v = c.strs;
    switch (op.kind) {
    case S_NEW_DEFAULT: {
        make_room(c); note_sig(c, op, "");
        void *mem = obj_alloc(sizeof(ST::string));
        ExcKind ex = run_sut(c, op, [&] { new (mem) ST::string(); });
        if (settle(c, op, ex, 0)) { auto *o = add_str(c, mem); o->role = ROLE_NEW; } else obj_free(mem);
        return true;
    }
    case S_CONSTRUCT: {
        TextArg A;
        make_room(c);
        if (!prepare_text(c, op, op.d & 0xFF, op.b, op.c, op.d >> 8, false, A)) { c.skipped = true; return true; }
        note_sig(c, op, std::string(A.kind_name()) + ",in=" + A.cls + (A.wf ? "" : ",invalid"));
        c.budget_bytes = A.in_bytes * 3;
        arg_roles(c, A, nullptr);
        void *mem = obj_alloc(sizeof(ST::string));
        ExcKind ex = run_sut(c, op, [&] { with_arg(A, [&](auto &&...xs) { new (mem) ST::string(std::forward<decltype(xs)>(xs)...); }); });
        throw_probes(c, ex, A, nullptr);
        c.plain_copy = (A.kind == SK_STR_COPY || A.kind == SK_STR_MOVE);
        if (settle(c, op, ex, A.wf ? 0 : bit(EX_UNICODE))) {
            auto *o = add_str(c, mem); o->role = ROLE_NEW;
            if (A.wf) o->model = A.expect; else o->st = M_ADOPT;
            arg_after_success(c, A, o);
        } else obj_free(mem);
        return true;
    }
    case S_FROM: {
        // static factories: from_utf8/16/32/wchar/latin_1, from_std_string, from_validated
        make_room(c);
        TextArg A;
        unsigned variant = (op.d >> 12) & 3;         // 0 validated factories, 1 from_validated, 2 from_latin_1
        unsigned kind = op.d & 0xFF;
        if (variant == 1) { static const unsigned K[] = {SK_PTRLEN, SK_CBUF_L, SK_CBUF_R}; kind = K[kind % 3]; }
        if (variant == 2) { static const unsigned K[] = {SK_CSTR, SK_PTRLEN, SK_CBUF_L}; kind = K[kind % 3]; }
        if (kind % SK__COUNT == SK_STR_COPY || kind % SK__COUNT == SK_STR_MOVE || kind % SK__COUNT == SK_NULL) kind = SK_PTRLEN;
        Op o2 = op; if (variant == 2) o2.fault &= ~F_CORRUPT;     // from_latin_1: every byte string is valid input
        // from_validated takes the caller's word for it: malformed bytes are legal input here and are stored as they are (every other call
        // hands it some) - this is how a pool string comes to hold bytes that a later validating operation would reject
        if (variant == 1 && ((op.d >> 14) & 1) == 0 && !(o2.fault & F_CORRUPT)) { o2.fault |= F_CORRUPT; o2.fc = (op.b * 2654435761u) >> 8; }
        if (!prepare_text(c, o2, kind, op.b, op.c, op.d >> 8, false, A)) { c.skipped = true; return true; }
        note_sig(c, op, std::string(variant == 1 ? "validated:" : variant == 2 ? "latin1:" : "") + A.kind_name() + ",in=" + A.cls + (A.wf ? "" : ",invalid"));
        c.budget_bytes = A.in_bytes * 3;
        arg_roles(c, A, nullptr);
        std::string expect = A.expect; bool wf = A.wf;
        if (variant == 1) { expect = A.kind == SK_PTRLEN ? A.n8 : A.b8->model; wf = true; }      // stored unvalidated, never throws
        if (variant == 2) { expect = latin1_ref(A.kind == SK_CBUF_L ? A.b8->model : A.n8); wf = true; }
        void *mem = obj_alloc(sizeof(ST::string));
        const bool m = A.explicit_mode;
        ExcKind ex = run_sut(c, op, [&] {
            typedef ST::string S;
            if (variant == 1) {
                switch (A.kind) {
                case SK_PTRLEN: new (mem) S(S::from_validated(A.n8.data(), A.n8.size())); break;
                case SK_CBUF_L: new (mem) S(S::from_validated(static_cast<const ST::char_buffer &>(*A.b8->p()))); break;
                default: new (mem) S(S::from_validated(std::move(*A.b8->p()))); break;
                }
                return;
            }
            if (variant == 2) {
                switch (A.kind) {
                case SK_CSTR: new (mem) S(S::from_latin_1(A.n8.c_str())); break;
                case SK_PTRLEN: new (mem) S(S::from_latin_1(A.n8.data(), A.n8.size())); break;
                default: new (mem) S(S::from_latin_1(*A.b8->p())); break;
                }
                return;
            }
            switch (A.kind) {
            case SK_CSTR: new (mem) S(S::from_utf8(A.n8.c_str())); break;
            case SK_PTRLEN: new (mem) S(m ? S::from_utf8(A.n8.data(), A.n8.size(), A.mode) : S::from_utf8(A.n8.data(), A.n8.size())); break;
            case SK_CBUF_L: case SK_CBUF_R: new (mem) S(m ? S::from_utf8(*A.b8->p(), A.mode) : S::from_utf8(*A.b8->p())); break;
            case SK_STD: new (mem) S(m ? S::from_std_string(A.n8, A.mode) : S::from_std_string(A.n8)); break;
            case SK_SV: new (mem) S(m ? S::from_std_string(std::string_view(A.n8), A.mode) : S::from_std_string(std::string_view(A.n8))); break;
            case SK_C8: new (mem) S(S::from_utf8(A.n8u.c_str())); break;
            case SK_U8STR: new (mem) S(m ? S::from_std_string(A.n8u, A.mode) : S::from_std_string(A.n8u)); break;
            case SK_U8SV: new (mem) S(m ? S::from_std_string(std::u8string_view(A.n8u), A.mode) : S::from_std_string(std::u8string_view(A.n8u))); break;
            case SK_W: new (mem) S(S::from_wchar(A.nw.c_str())); break;
            case SK_WN: new (mem) S(m ? S::from_wchar(A.nw.data(), A.nw.size(), A.mode) : S::from_wchar(A.nw.data(), A.nw.size())); break;
            case SK_16: new (mem) S(S::from_utf16(A.n16.c_str())); break;
            case SK_16N: new (mem) S(m ? S::from_utf16(A.n16.data(), A.n16.size(), A.mode) : S::from_utf16(A.n16.data(), A.n16.size())); break;
            case SK_32: new (mem) S(S::from_utf32(A.n32.c_str())); break;
            case SK_32N: new (mem) S(m ? S::from_utf32(A.n32.data(), A.n32.size(), A.mode) : S::from_utf32(A.n32.data(), A.n32.size())); break;
            case SK_WBUF: new (mem) S(m ? S::from_wchar(*A.bw->p(), A.mode) : S::from_wchar(*A.bw->p())); break;
            case SK_16BUF: new (mem) S(m ? S::from_utf16(*A.b16->p(), A.mode) : S::from_utf16(*A.b16->p())); break;
            case SK_32BUF: new (mem) S(m ? S::from_utf32(*A.b32->p(), A.mode) : S::from_utf32(*A.b32->p())); break;
            case SK_WSTR: new (mem) S(m ? S::from_std_wstring(A.nw, A.mode) : S::from_std_string(A.nw)); break;
            case SK_16STR: new (mem) S(m ? S::from_std_string(A.n16, A.mode) : S::from_std_string(A.n16)); break;
            case SK_32STR: new (mem) S(m ? S::from_std_string(A.n32, A.mode) : S::from_std_string(A.n32)); break;
            case SK_WSV: new (mem) S(m ? S::from_std_wstring(std::wstring_view(A.nw), A.mode) : S::from_std_string(std::wstring_view(A.nw))); break;
            case SK_16SV: new (mem) S(m ? S::from_std_string(std::u16string_view(A.n16), A.mode) : S::from_std_string(std::u16string_view(A.n16))); break;
            default: new (mem) S(m ? S::from_std_string(std::u32string_view(A.n32), A.mode) : S::from_std_string(std::u32string_view(A.n32))); break;
            }
        });
        if (variant == 0 && A.kind == SK_CBUF_R) A.kind = SK_CBUF_L;      // from_utf8(const char_buffer&) never moves
        throw_probes(c, ex, A, nullptr);
        if (settle(c, op, ex, wf ? 0 : bit(EX_UNICODE))) {
            auto *o = add_str(c, mem); o->role = ROLE_NEW;
            if (wf) o->model = expect; else o->st = M_ADOPT;
            arg_after_success(c, A, o);
        } else obj_free(mem);
        return true;
    }
    case S_FILL: {
        make_room(c);
        size_t n = op.a; char ch = (char)(0x20 + op.b % 0x5F);
        note_sig(c, op, std::string("len=") + cls_letter(n, 16));
        c.budget_bytes = n;
        void *mem = obj_alloc(sizeof(ST::string));
        ExcKind ex = run_sut(c, op, [&] { new (mem) ST::string(ST::string::fill(n, ch)); });
        if (settle(c, op, ex, 0)) { auto *o = add_str(c, mem); o->model = std::string(n, ch); o->role = ROLE_NEW; } else obj_free(mem);
        return true;
    }
    case S_FROM_NUM: {
        make_room(c);
        unsigned ty = op.b % 11;
        note_sig(c, op, "ty=" + std::to_string(ty));
        long long iv = int_value(op.a); double dv = dbl_value(op.a);
        int base = (op.c % 4 == 0) ? 10 : (op.c % 4 == 1) ? 16 : (op.c % 4 == 2) ? 2 : 36;
        bool upper = (op.c >> 2) & 1;
        // 'f' gives the longest text (22 characters for 1e14); the formatter's block holds 64, so values beyond 1e15 stay with 'g' / 'e'
        char ffmt = "gef"[(op.c >> 3) % 3];
        if (ffmt == 'f' && !(dv != dv) && (dv > 1e15 || dv < -1e15) && dv - dv == 0) ffmt = 'e';
        void *mem = obj_alloc(sizeof(ST::string));
        ExcKind ex = run_sut(c, op, [&] {
            typedef ST::string S;
            switch (ty) {
            case 0: new (mem) S(S::from_int((short)iv == -32768 ? (short)1 : (short)iv, base, upper)); break;
            case 1: new (mem) S(S::from_int((int)iv, base, upper)); break;
            case 2: new (mem) S(S::from_int((long)iv, base, upper)); break;
            case 3: new (mem) S(S::from_int((long long)iv, base, upper)); break;
            case 4: new (mem) S(S::from_uint((unsigned short)iv, base, upper)); break;
            case 5: new (mem) S(S::from_uint((unsigned int)iv, base, upper)); break;
            case 6: new (mem) S(S::from_uint((unsigned long)iv, base, upper)); break;
            case 7: new (mem) S(S::from_uint((unsigned long long)iv, base, upper)); break;
            case 8: new (mem) S(S::from_float((float)dv, ffmt)); break;
            case 9: new (mem) S(S::from_double(dv, ffmt)); break;
            default: new (mem) S(S::from_bool(iv & 1)); break;
            }
        });
        if (settle(c, op, ex, 0)) { auto *o = add_str(c, mem); o->st = M_ADOPT; o->role = ROLE_NEW; } else obj_free(mem);
        return true;
    }
    case S_LITERAL: {
        make_room(c);
        unsigned w = op.d % 5;
        std::string n8 = take_units<char>(c, op.b, op.c);
        std::wstring nw = take_units<wchar_t>(c, op.b, op.c);
        std::u16string n16 = take_units<char16_t>(c, op.b, op.c);
        std::u32string n32 = take_units<char32_t>(c, op.b, op.c);
        std::u8string n8u((const char8_t *)n8.data(), n8.size());
        std::string expect;
        switch (w) {
        case 0: case 4: expect = n8; break;
        case 1: enc_utf8(std::u32string(nw.begin(), nw.end()), expect); break;
        case 2: { Scalars sc; u16_strict(n16, sc); enc_utf8(sc, expect); break; }
        default: enc_utf8(n32, expect); break;
        }
        note_sig(c, op, "w=" + std::to_string(w) + ",len=" + cls_letter(expect.size(), 16));
        c.budget_bytes = expect.size() * 4;
        void *mem = obj_alloc(sizeof(ST::string));
        ExcKind ex = run_sut(c, op, [&] {
            using namespace ST::literals;
            switch (w) {
            case 0: new (mem) ST::string(operator"" _st(n8.data(), n8.size())); break;
            case 1: new (mem) ST::string(operator"" _st(nw.data(), nw.size())); break;
            case 2: new (mem) ST::string(operator"" _st(n16.data(), n16.size())); break;
            case 3: new (mem) ST::string(operator"" _st(n32.data(), n32.size())); break;
            default: new (mem) ST::string(operator"" _st(n8u.data(), n8u.size())); break;
            }
        });
        if (settle(c, op, ex, 0)) { auto *o = add_str(c, mem); o->model = expect; o->role = ROLE_NEW; } else obj_free(mem);
        return true;
    }
    case S_ASSIGN: case S_SET: {
        StrObj *dst = pick(v, op.a);
        if (!dst) { c.skipped = true; return true; }
        TextArg A;
        bool single = op.kind == S_ASSIGN;
        unsigned variant = (op.kind == S_SET) ? ((op.d >> 12) & 3) : 0;      // 1: set_validated
        unsigned kind = op.d & 0xFF;
        if (variant == 1) { static const unsigned K[] = {SK_PTRLEN, SK_CBUF_L, SK_CBUF_R}; kind = K[kind % 3]; }
        Op o2 = op; if (variant == 1) o2.fault &= ~F_CORRUPT;
        if (!prepare_text(c, o2, kind, op.b, op.c, op.d >> 8, single, A)) { c.skipped = true; return true; }
        if (variant == 1 && !A.wf) { c.skipped = true; return true; }
        bool self = A.pool_obj == dst;
        note_sig(c, op, std::string(variant == 1 ? "validated:" : "") + A.kind_name() + ",dst=" + cl(dst) + ",in=" + A.cls + (self ? ",self" : "") + (A.wf ? "" : ",invalid"));
        c.budget_bytes = A.in_bytes * 3 + dst->model.size();
        if (dst->moved_from) c.touched_moved_from = true;
        if (self) probe(c, PR_SELF_REFERENTIAL);
        // (s = s / s.set(s) is an assignment like any other: the value must be the same afterwards, the storage may legitimately be new)
        as_target(dst); if (!(self && A.kind == SK_STR_COPY)) note_mutating(c, dst);
        arg_roles(c, A, dst);
        // one assignment in four is bracketed by the observations a hashed container makes: the target is hashed before (whatever an implementation
        // may remember about the old value is remembered now) and must hash like its new value afterwards
        const bool hashed = (op.b & 3) == 0 && dst->st == M_DEFINITE;
        if (hashed) run_quiet([&] { simrt::SutScope sc; (void)ST::hash()(*dst->p()); (void)ST::hash_i()(*dst->p()); });
        ExcKind ex = run_sut(c, op, [&] {
            ST::string &d = *dst->p();
            if (variant == 1) {
                switch (A.kind) {
                case SK_PTRLEN: d.set_validated(A.n8.data(), A.n8.size()); break;
                case SK_CBUF_L: d.set_validated(static_cast<const ST::char_buffer &>(*A.b8->p())); break;
                default: d.set_validated(std::move(*A.b8->p())); break;
                }
            } else if (op.kind == S_ASSIGN) with_arg(A, [&](auto &&x, auto &&...) { d = std::forward<decltype(x)>(x); });
            else with_arg(A, [&](auto &&...xs) { d.set(std::forward<decltype(xs)>(xs)...); });
        });
        throw_probes(c, ex, A, dst);
        c.plain_copy = (A.kind == SK_STR_COPY || A.kind == SK_STR_MOVE);      // "copies are independent deep copies": whatever bytes the source holds
        if (settle(c, op, ex, A.wf ? 0 : bit(EX_UNICODE))) {
            if (self && A.kind == SK_STR_MOVE) dst->st = M_VALID_ONLY;
            else if (!self) {
                if (A.wf) dst->model = A.expect; else dst->st = M_ADOPT;
                dst->moved_from = false;
                arg_after_success(c, A, dst);
                if (hashed && A.wf) {
                    bool same = true;
                    run_quiet([&] { simrt::SutScope sc; ST::string fresh = ST::string::from_validated(A.expect.data(), A.expect.size()); same = ST::hash()(*dst->p()) == ST::hash()(fresh) && ST::hash_i()(*dst->p()) == ST::hash_i()(fresh); });
                    if (!same) set_viol(c, "value_mismatch", "after the assignment the target does not hash like a string freshly built from its new value");
                }
            }
        }
        return true;
    }
    case S_APPEND: {
        StrObj *dst = pick(v, op.a);
        if (!dst) { c.skipped = true; return true; }
        // += exists for const char*, wchar_t*, char16_t*, char32_t*, char8_t*, ST::string
        static const unsigned K[] = {SK_CSTR, SK_W, SK_16, SK_32, SK_C8, SK_STR_COPY, SK_NULL};
        TextArg A;
        if (!prepare_text(c, op, K[(op.d & 0xFF) % 7], op.b, op.c, 0, true, A)) { c.skipped = true; return true; }
        bool self = A.pool_obj == dst;
        note_sig(c, op, std::string(A.kind_name()) + ",dst=" + cl(dst) + ",in=" + A.cls + (self ? ",self" : "") + (A.wf ? "" : ",invalid"));
        c.budget_bytes = (A.in_bytes + dst->model.size()) * 3;
        if (dst->moved_from) c.touched_moved_from = true;
        if (self) probe(c, PR_SELF_REFERENTIAL);
        as_target(dst); note_mutating(c, dst); arg_roles(c, A, dst);
        std::string expect = dst->model + A.expect;
        ExcKind ex = run_sut(c, op, [&] { with_arg(A, [&](auto &&x, auto &&...) { *dst->p() += std::forward<decltype(x)>(x); }); });
        throw_probes(c, ex, A, dst);
        if (settle(c, op, ex, A.wf ? 0 : bit(EX_UNICODE))) {
            if (A.wf) dst->model = expect; else dst->st = M_ADOPT;
            dst->moved_from = false;
        }
        return true;
    }
    case S_APPEND_CH: {
        StrObj *dst = pick(v, op.a);
        if (!dst) { c.skipped = true; return true; }
        unsigned w = op.c % 4;             // 0 char, 1 wchar_t, 2 char16_t, 3 char32_t
        char32_t cp = op.b;
        if (!(op.fault & F_CORRUPT)) { if (cp > 0x10FFFF) cp %= 0x110000; if (cp >= 0xD800 && cp <= 0xDFFF) cp = 0x20AC; }
        else if (w == 1 || w == 3) cp = (op.fc & 1) ? 0x110000 + (op.fc >> 8) % 0x1000 : 0xD800 + (op.fc >> 8) % 0x800;
        else cp = 0xD800 + (op.fc >> 8) % 0x800;
        if (w == 0) cp &= 0xFF; else if (w == 2) cp &= 0xFFFF;
        bool valid = cp <= 0x10FFFF && !(cp >= 0xD800 && cp <= 0xDFFF);
        note_sig(c, op, std::string("w=") + std::to_string(w) + ",dst=" + cl(dst) + (valid ? "" : ",invalid"));
        c.budget_bytes = dst->model.size() + 4;
        if (dst->moved_from) c.touched_moved_from = true;
        as_target(dst); note_mutating(c, dst);
        std::string add; { Scalars s(1, cp); if (valid) enc_utf8(s, add); }
        ExcKind ex = run_sut(c, op, [&] {
            switch (w) {
            case 0: *dst->p() += (char)cp; break;
            case 1: *dst->p() += (wchar_t)cp; break;
            case 2: *dst->p() += (char16_t)cp; break;
            default: *dst->p() += (char32_t)cp; break;
            }
        });
        if (ex != EX_NONE && ex != EX_BAD_ALLOC && dst->model.size() >= 16) probe(c, PR_THROW_WITH_HEAP_TARGET);
        if (settle(c, op, ex, valid ? 0 : bit(EX_UNICODE))) {
            if (valid) dst->model += add; else dst->st = M_ADOPT;
            dst->moved_from = false;
        }
        return true;
    }
    case S_PATH: {
        // std::filesystem::path in and out: construct / assign / set / from_path, to_path, stream insertion, formatting
        StrObj *dst = pick(v, op.a);
        if (!dst) { c.skipped = true; return true; }
        unsigned form = op.d % 7;
        std::string text = take_units<char>(c, op.b, op.c);
        if (op.fault & F_CORRUPT) corrupt_units<char>(text, op.fc);      // a file name whose native bytes are not UTF-8 is a legal path
        text = text.substr(0, text.find('\0'));
        const bool path_wf = strict_utf8(text.data(), text.size()) && !has_c03_hazard(text.data(), text.size());
        std::filesystem::path path(std::u8string((const char8_t *)text.data(), text.size()));
        note_sig(c, op, std::string("form=") + std::to_string(form) + ",dst=" + cl(dst) + ",in=" + cls_letter(text.size(), 16) + (path_wf ? "" : ",invalid"));
        c.budget_bytes = (text.size() + dst->model.size()) * 6 + 64;
        if (dst->moved_from) c.touched_moved_from = true;
        if (form <= 2) { as_target(dst); note_mutating(c, dst); } else as_const(dst);
        bool ok = true; std::string got; void *mem = nullptr; SsObj *ss = nullptr;
        if (form == 5) { ss = pick(c.sss, op.a); if (!ss) { c.skipped = true; return true; } as_target(ss); }
        if (form == 3 || form == 6) { make_room(c, dst); mem = obj_alloc(sizeof(ST::string)); }
        ExcKind ex = run_sut(c, op, [&] {
            ST::string &d = *dst->p();
            switch (form) {
            case 0: { ST::string tmp(path); d = std::move(tmp); break; }
            case 1: d = path; break;
            case 2: d.set(path); break;
            case 3: new (mem) ST::string(ST::string::from_path(path)); break;
            case 4: { std::filesystem::path out = d.to_path(); auto u = out.u8string(); got.assign((const char *)u.data(), u.size()); break; }
            case 5: *ss->p() << path; break;
            default: new (mem) ST::string(ST::format("<{}>", path)); break;
            }
        });
        if (ex != EX_NONE && ex != EX_BAD_ALLOC && form <= 2 && dst->model.size() >= 16) probe(c, PR_THROW_WITH_HEAP_TARGET);
        if (settle(c, op, ex, path_wf ? 0 : bit(EX_UNICODE))) {
            switch (form) {
            case 0: case 1: case 2: dst->model = text; dst->moved_from = false; break;
            case 3: { StrObj *o = add_str(c, mem); o->role = ROLE_NEW; o->model = text; break; }
            case 4: ok = got == dst->model; break;
            case 5: ss->model += text; if (ss->model.size() > ss->cap) { size_t n = ss->cap; while (ss->model.size() > n) n *= 2; ss->cap = n; } ss->moved_from = false; break;
            default: { StrObj *o = add_str(c, mem); o->role = ROLE_NEW; o->model = "<" + text + ">"; break; }
            }
            if (!ok) set_viol(c, "value_mismatch", "to_path() does not hold the string's bytes");
        } else if (mem) obj_free(mem);
        return true;
    }
    case S_SELF_ALIAS: {
        // the source text is (part of) the target's own storage: s = s.c_str() + k, s.set(s.c_str() + k, n), s += s.c_str() + k, s = s.view(k, n)
        StrObj *dst = pick(v, op.a);
        if (!dst) { c.skipped = true; return true; }
        size_t sz = dst->model.size();
        size_t off = resolve_code(op.b, sz); if (off == ST_AUTO_SIZE || off > sz) off = sz ? off % (sz + 1) : 0;
        size_t len = resolve_code(op.c, sz); if (len == ST_AUTO_SIZE || off + len > sz) len = sz - off;
        unsigned form = op.d % 7;
        std::string slice = dst->model.substr(off, len), rest = dst->model.substr(off);
        std::string cut = rest.substr(0, rest.find('\0'));
        std::string expect = form == 0 ? cut : form == 2 ? dst->model + cut : slice;
        const std::string &validated = form == 0 || form == 2 ? cut : slice;
        bool wf = form >= 4 ? true : strict_utf8(validated.data(), validated.size());
        note_sig(c, op, std::string("form=") + std::to_string(form) + ",dst=" + cl(dst) + ",off=" + (off == 0 ? "0" : off == sz ? "end" : "mid") + ",in=" + cls_letter(validated.size(), 16) + (wf ? "" : ",invalid"));
        c.budget_bytes = sz * 4 + 16;
        if (dst->moved_from) c.touched_moved_from = true;
        probe(c, PR_SELF_REFERENTIAL);
        as_target(dst); note_mutating(c, dst);
        ExcKind ex = run_sut(c, op, [&] {
            ST::string &d = *dst->p();
            switch (form) {
            case 0: d = d.c_str() + off; break;
            case 1: d.set(d.c_str() + off, len); break;
            case 2: d += d.c_str() + off; break;
            case 3: d = d.view(off, len); break;
            case 5: d.set_validated(d.c_str() + off, len); break;
            case 6: d.set_validated(d.u8_str() + off, len); break;
            default: d.set(d.c_str() + off, len, ST::assume_valid); break;
            }
        });
        if (ex != EX_NONE && ex != EX_BAD_ALLOC && sz >= 16) probe(c, PR_THROW_WITH_HEAP_TARGET);
        if (settle(c, op, ex, wf ? 0 : bit(EX_UNICODE))) {
            if (wf) dst->model = expect; else dst->st = M_ADOPT;
            dst->moved_from = false;
        }
        return true;
    }
    case S_SWAP: {
        // exchanging two strings the way generic code (std::sort, std::reverse, pair::swap) does: unqualified swap, std::iter_swap, std::swap
        StrObj *a = pick(v, op.a), *b = pick(v, op.b);
        if (!a || !b || a == b) { c.skipped = true; return true; }
        note_sig(c, op, std::string("a=") + cl(a) + ",b=" + cl(b) + ",form=" + std::to_string(op.c % 3));
        if (a->moved_from || b->moved_from) c.touched_moved_from = true;
        as_target(a); as_target(b); note_mutating(c, a); note_mutating(c, b);
        ExcKind ex = run_sut(c, op, [&] { using std::swap; switch (op.c % 3) { case 0: swap(*a->p(), *b->p()); break; case 1: std::iter_swap(a->p(), b->p()); break; default: std::swap(*a->p(), *b->p()); break; } });
        if (settle(c, op, ex, 0)) { std::swap(a->model, b->model); std::swap(a->moved_from, b->moved_from); }
        return true;
    }
    case S_CLEAR: {
        StrObj *dst = pick(v, op.a);
        if (!dst) { c.skipped = true; return true; }
        note_sig(c, op, std::string("dst=") + cl(dst));
        if (dst->moved_from) c.touched_moved_from = true;
        as_target(dst); note_mutating(c, dst);
        ExcKind ex = run_sut(c, op, [&] { switch (op.b % 3) { case 0: dst->p()->clear(); break; case 1: *dst->p() = ST::null; break; default: dst->p()->set(ST::null); break; } });
        if (settle(c, op, ex, 0)) { dst->model.clear(); dst->moved_from = false; }
        return true;
    }
    case S_ISTREAM: {
        // extraction with a token that may be invalid (C18): the target keeps its value if it throws
        StrObj *dst = pick(v, op.a);
        if (!dst) { c.skipped = true; return true; }
        bool wide = op.d & 1;
        std::string n8 = take_units<char>(c, op.b, op.c);
        std::wstring nw = take_units<wchar_t>(c, op.b, op.c);
        if (op.fault & F_CORRUPT) { corrupt_units<char>(n8, op.fc); corrupt_units<wchar_t>(nw, op.fc); }
        // self-referential form: the stream's get area is a (non-owning) view of the target's own text - `in >> s` with `in` reading s's bytes
        const bool self = !wide && ((op.d >> 1) % 5) == 4 && dst->st == M_DEFINITE && !(op.fault & F_CORRUPT);
        if (self) { n8 = dst->model; probe(c, PR_SELF_REFERENTIAL); }
        // the token is what std::basic_string extraction yields: leading whitespace skipped, up to next whitespace
        std::string tok8; std::wstring tokw;
        { std::istringstream is(n8); is >> tok8; std::wistringstream ws(nw); ws >> tokw; }
        std::string expect; bool wf;
        if (wide) { std::u32string t(tokw.begin(), tokw.end()); wf = u32_strict(t); if (wf) enc_utf8(t, expect); }
        else { wf = strict_utf8(tok8.data(), tok8.size()); expect = tok8; }
        note_sig(c, op, std::string(wide ? "wistream" : "istream") + ",dst=" + cl(dst) + (wf ? "" : ",invalid") + (self ? ",self" : ""));
        c.budget_bytes = n8.size() * 8 + dst->model.size();
        as_target(dst); note_mutating(c, dst);
        std::istringstream is(n8); std::wistringstream ws(nw);
        Op o2 = op; uint32_t k0 = 0;
        if (op.fault & F_ALLOC) {
            // The standard library's own token extraction reports a failed allocation through the stream (badbit), not as an exception,
            // so the fault is placed on the allocations string_theory performs itself, after the token is in hand: the allocations of an
            // identical std::basic_string extraction are counted first and skipped.
            std::istringstream is0(n8); std::wistringstream ws0(nw);
            simrt::heap_op_begin(0);
            { simrt::SutScope sut; if (wide) { std::wstring t; ws0 >> t; } else { std::string t; is0 >> t; } }
            k0 = simrt::heap_op_allocs(); simrt::heap_op_end();
            o2.fa = k0 + op.fa;
        }
        struct ViewBuf : std::streambuf { ViewBuf(const char *p, size_t n) { char *b = const_cast<char *>(p); setg(b, b, b + n); } };
        ViewBuf vb(self ? dst->p()->c_str() : "", self ? dst->p()->size() : 0); std::istream vis(&vb);
        ExcKind ex = run_sut(c, o2, [&] { if (self) vis >> *dst->p(); else if (wide) ws >> *dst->p(); else is >> *dst->p(); });
        c.op_allocs -= std::min(k0, c.op_allocs);        // (the enumeration counts string_theory's own allocations only)
        if (ex != EX_NONE && ex != EX_BAD_ALLOC && dst->model.size() >= 16) probe(c, PR_THROW_WITH_HEAP_TARGET);
        if (settle(c, o2, ex, wf ? 0 : bit(EX_UNICODE))) { if (wf) dst->model = expect; else dst->st = M_ADOPT; dst->moved_from = false; }
        return true;
    }
    case S_DECODE: {
        // hex_decode / base64_decode (allocating forms) assigned into a pool buffer
        BufObj<char> *dst = pick(c.b8, op.a);
        if (!dst) { c.skipped = true; return true; }
        bool b64 = op.d & 1;
        std::string raw = take_units<char>(c, op.b, op.c);
        std::string text;
        run_quiet([&] { ST::string e = b64 ? ST::base64_encode(raw.data(), raw.size()) : ST::hex_encode(raw.data(), raw.size()); text.assign(e.c_str(), e.size()); });
        bool bad = false;
        if (op.fault & F_CORRUPT) {
            bad = true;
            uint32_t k = op.fc & 0xFF, ps = op.fc >> 8;
            if (text.empty() || k % 5 == 0) text += (k & 4) ? "=" : "A";                    // wrong length
            else if (k % 5 == 1) text[ps % text.size()] = (k & 4) ? '!' : '=';              // bad character / misplaced padding
            else if (k % 5 == 2) text[ps % text.size()] = (char)0xE9;                       // (not even valid UTF-8 when validated)
            else if (k % 5 == 3) text.insert(ps % (text.size() + 1), 1, " \t\r\n"[(k >> 3) & 3]);      // one white-space character somewhere (also leading / trailing)
            else { std::string w; const size_t col = (k & 8) ? 64 : 16;                      // line-wrapped, as MIME / PEM text arrives
                   for (size_t i = 0; i < text.size(); i++) { w += text[i]; if ((i + 1) % col == 0) w += (k & 16) ? "\n" : "\r\n"; } w += "\n"; text.swap(w); }
        }
        note_sig(c, op, std::string(b64 ? "base64" : "hex") + ",dst=" + cls_letter(dst->model.size(), 16) + (bad ? ",corrupted" : ""));
        c.budget_bytes = text.size() * 2 + dst->model.size();
        as_target(dst);
        void *tmp = obj_alloc(sizeof(ST::string));
        run_quiet([&] { new (tmp) ST::string(ST::string::from_validated(text.data(), text.size())); });
        ST::string &in = *static_cast<ST::string *>(tmp);
        ExcKind ex = run_sut(c, op, [&] { *dst->p() = b64 ? ST::base64_decode(in) : ST::hex_decode(in); });
        run_quiet([&] { in.~string(); }); obj_free(tmp);
        if (ex != EX_NONE && ex != EX_BAD_ALLOC && dst->model.size() >= 16) probe(c, PR_THROW_WITH_HEAP_TARGET);
        if (settle(c, op, ex, bad ? bit(EX_CODEC) : 0)) { if (bad) dst->st = M_ADOPT; else dst->model = raw; dst->moved_from = false; }
        return true;
    }
    case S_DESTROY: {
        StrObj *o = pick(v, op.a);
        if (!o) { c.skipped = true; return true; }
        note_sig(c, op, std::string("obj=") + cl(o) + (o->moved_from ? ",moved_from" : ""));
        note_destroying(c, o);
        ExcKind ex = run_sut(c, op, [&] { o->p()->~string(); });
        obj_free(o->mem); remove_obj(c, o); delete o;
        settle(c, op, ex, 0);
        return true;
    }
    default: return false;
    }
}

} // namespace A
