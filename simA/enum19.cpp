// C19 fault enumeration: every allocating operation kind x operand storage classes x every allocation index.
//
// A *cell* is (operation kind, overload/variant, element type, storage class of every operand).  For each cell a
// small plan builds fresh operands, runs the operation once counting the k allocations library code attempts
// inside it, and then re-runs the same plan k times with "allocation i throws" (i = 1..k).  Every plan ends with an
// epilogue that reads, re-assigns and (at teardown) destroys every object, and the usual invariants are evaluated
// after every step.
#include "run.h"
#include "textarg.h"
#include <functional>

namespace A {

namespace {

const uint32_t LC16[] = {0, 5, 15, 16, 40};
const uint32_t LC12[] = {0, 5, 11, 12, 40};
const uint32_t SSZ[] = {0, 100, 256, 300, 1500};
const uint32_t SADD[] = {1, 200, 700};
const uint32_t SRC = 3;

struct Builder {
    Plan p;
    unsigned nstr = 0, nb[4] = {0, 0, 0, 0}, nss = 0, nvec = 0;
    Builder() {
        p.k.prop = P_C19; p.k.seed = 19; p.k.data_seed = 1919; p.k.pool_cap = 12; p.k.heap_policy = 0;
        p.k.fill_fresh = 0xA5; p.k.fill_freed = 0xDD; p.k.text_mix = 2; p.k.strict = 0;
    }
    uint32_t str(uint32_t len) { Op o; o.kind = S_CONSTRUCT; o.b = SRC; o.c = len; o.d = SK_PTRLEN; p.ops.push_back(o); return nstr++; }
    uint32_t buf(int t, uint32_t len) { Op o; o.kind = B_NEW_PTRLEN; o.t = (uint8_t)t; o.a = SRC + 1; o.b = len; p.ops.push_back(o); return nb[t]++; }
    uint32_t ss(uint32_t len) {
        Op o; o.kind = SS_NEW; p.ops.push_back(o);
        if (len) { Op a; a.kind = SS_APPEND; a.a = nss; a.b = SRC; a.c = len; p.ops.push_back(a); }
        return nss++;
    }
    uint32_t vec(uint32_t len) { uint32_t s = str(len); Op o; o.kind = S_TOKENIZE; o.a = s; o.b = 5; p.ops.push_back(o); return nvec++; }
    size_t target(const Op &o) { p.ops.push_back(o); return p.ops.size() - 1; }
    void epilogue() {
        for (unsigned i = 0; i < nstr + 1; i++) {
            Op r; r.kind = S_READ; r.a = i; r.b = 2; p.ops.push_back(r);
            Op a; a.kind = S_ASSIGN; a.a = i; a.b = SRC + 2; a.c = 20; a.d = SK_CSTR; p.ops.push_back(a);
        }
        for (int t = 0; t < 4; t++)
            for (unsigned i = 0; i < nb[t] + 1; i++) {
                Op r; r.kind = B_READ; r.t = (uint8_t)t; r.a = i; r.b = 2; p.ops.push_back(r);
                Op a; a.kind = B_ALLOCATE_FILL; a.t = (uint8_t)t; a.a = i; a.b = 20; a.c = 7; p.ops.push_back(a);
            }
        for (unsigned i = 0; i < nss + 1; i++) {
            Op r; r.kind = SS_READ; r.a = i; p.ops.push_back(r);
            Op a; a.kind = SS_APPEND; a.a = i; a.b = SRC; a.c = 300; p.ops.push_back(a);
        }
    }
};

struct Enumerator {
    unsigned part, parts; EnumVisit visit; void *user; EnumTotals &tot;
    uint64_t counter = 0, from = 0; bool stop = false;

    void cell(const std::string &name, Builder &b, size_t tstep) {
        if (stop) return;
        uint64_t me = counter++;
        if ((me % parts) != part || me < from) return;
        g_run_index = me;
        b.epilogue();
        RunResult base = run_plan(b.p, nullptr, true);
        if (tstep >= base.allocs.size()) {
            // the baseline did not get as far as the target (a violation in the setup): report through the visitor
            tot.cells++; tot.executions++;
            if (!visit(b.p, name.c_str(), 0, 0, user)) stop = true;
            return;
        }
        if (base.skipped[tstep]) return;
        unsigned k = base.allocs[tstep];
        tot.cells++; tot.alloc_points += k; tot.executions += 1 + k; tot.max_k = std::max<uint64_t>(tot.max_k, k);
        if (!visit(b.p, name.c_str(), k, 0, user)) { stop = true; return; }
        for (unsigned i = 1; i <= k && !stop; i++) {
            Plan q = b.p;
            q.ops[tstep].fault |= F_ALLOC; q.ops[tstep].fa = i;
            if (!visit(q, name.c_str(), k, i, user)) stop = true;
        }
    }
};

std::string nm(const char *op, const std::string &variant, const std::string &classes) { return std::string(op) + "/" + variant + "/" + classes; }
char L(uint32_t n, unsigned lim) { return cls_letter(n, lim); }

bool pool_kind(unsigned sk) { return sk == SK_CBUF_L || sk == SK_CBUF_R || sk == SK_WBUF || sk == SK_16BUF || sk == SK_32BUF || sk == SK_STR_COPY || sk == SK_STR_MOVE; }
int pool_type(unsigned sk) { return sk == SK_WBUF ? 1 : sk == SK_16BUF ? 2 : sk == SK_32BUF ? 3 : 0; }
bool wide12(unsigned sk) { return sk == SK_W || sk == SK_WN || sk == SK_32 || sk == SK_32N || sk == SK_WBUF || sk == SK_32BUF || sk == SK_WSTR || sk == SK_32STR || sk == SK_WSV || sk == SK_32SV; }

// text-argument operations: S_CONSTRUCT / S_FROM / S_ASSIGN / S_SET / S_APPEND / S_PLUS
void text_ops(Enumerator &E) {
    static const unsigned APPENDK[] = {SK_CSTR, SK_W, SK_16, SK_32, SK_C8, SK_STR_COPY, SK_NULL};
    struct How { uint16_t kind; const char *name; bool has_target; };
    const How hows[] = {{S_CONSTRUCT, "construct", false}, {S_FROM, "from", false}, {S_ASSIGN, "assign", true}, {S_SET, "set", true},
                        {S_APPEND, "append", true}, {S_PLUS, "plus", true}};
    for (const How &h : hows) {
        bool seven = h.kind == S_APPEND || h.kind == S_PLUS;
        unsigned nk = seven ? 7 : (unsigned)SK__COUNT;
        for (unsigned ki = 0; ki < nk; ki++) {
            unsigned sk = seven ? APPENDK[ki] : ki;
            if (h.kind == S_FROM && (sk == SK_STR_COPY || sk == SK_STR_MOVE || sk == SK_NULL)) continue;
            unsigned nvar = h.kind == S_FROM ? 3 : h.kind == S_SET ? 2 : h.kind == S_PLUS ? 2 : 1;
            for (unsigned var = 0; var < nvar; var++) {
                if ((h.kind == S_FROM || h.kind == S_SET) && var >= 1 && ki >= 3) continue;      // validated / latin1 variants: 3 source forms
                for (unsigned mode = 0; mode < 3; mode++) {
                    const bool moded = (h.kind == S_CONSTRUCT || h.kind == S_SET || h.kind == S_FROM) && var == 0 &&
                                       (sk == SK_PTRLEN || sk == SK_CBUF_L || sk == SK_CBUF_R || sk == SK_STD || sk == SK_16N || sk == SK_32BUF || sk == SK_WSTR);
                    if (mode && !moded) continue;
                    for (int corrupt = 0; corrupt < 2; corrupt++) {
                        const bool pool_corruptible = sk == SK_CBUF_L || sk == SK_CBUF_R || sk == SK_32BUF;
                        if (corrupt && ((pool_kind(sk) && !pool_corruptible) || sk == SK_NULL || var)) continue;
                        const uint32_t *AC = wide12(sk) ? LC12 : LC16;
                        for (int ai = 0; ai < 5; ai++) {
                            if (sk == SK_NULL && ai) continue;
                            for (int ti = 0; ti < (h.has_target ? 5 : 1); ti++) {
                                Builder b;
                                uint32_t tsel = h.has_target ? b.str(LC16[ti]) : 0;
                                uint32_t bsel = SRC + 4;
                                if (pool_kind(sk)) {
                                    if (sk == SK_STR_COPY || sk == SK_STR_MOVE) bsel = b.str(AC[ai]);
                                    else { bsel = b.buf(pool_type(sk), AC[ai]); if (corrupt) { b.p.ops.back().fault = F_CORRUPT; b.p.ops.back().fc = ((AC[ai] / 2) << 8) | 1; } }
                                }
                                Op o; o.kind = h.kind; o.a = tsel; o.b = bsel; o.c = AC[ai];
                                o.d = (h.kind == S_APPEND || h.kind == S_PLUS) ? ki : sk;
                                if (h.kind == S_PLUS) o.d |= var << 8;
                                else o.d |= (mode << 8) | (var << 12);
                                if (corrupt && !pool_kind(sk)) { o.fault = F_CORRUPT; o.fc = (AC[ai] / 2) << 8 | 1; }
                                size_t ts = b.target(o);
                                char cls[32]; std::snprintf(cls, sizeof cls, "dst=%c,arg=%c", h.has_target ? L(LC16[ti], 16) : '-', L(AC[ai], wide12(sk) ? 12 : 16));
                                E.cell(nm(h.name, std::string(SK_kind_name(sk)) + ",var" + std::to_string(var) + ",mode" + std::to_string(mode) + (corrupt ? ",corrupted" : ""), cls), b, ts);
                            }
                        }
                    }
                }
            }
        }
    }
    // self-referential forms
    for (int ti = 0; ti < 5; ti++) {
        for (unsigned form = 0; form < 3; form++) {
            Builder b; uint32_t s = b.str(LC16[ti]);
            Op o; o.a = s; o.b = s;
            if (form == 0) { o.kind = S_ASSIGN; o.d = SK_STR_COPY; } else if (form == 1) { o.kind = S_APPEND; o.d = 5; } else { o.kind = S_PLUS; o.d = 5; }
            size_t ts = b.target(o);
            E.cell(nm(form == 0 ? "assign" : form == 1 ? "append" : "plus", "self", std::string("dst=") + L(LC16[ti], 16)), b, ts);
        }
    }
}

void char_ops(Enumerator &E) {
    static const uint32_t CPS[] = {0x41, 0xE9, 0x20AC, 0x1F600};
    for (int plus = 0; plus < 2; plus++)
        for (unsigned w = 0; w < 4; w++)
            for (unsigned left = 0; left < (plus ? 2u : 1u); left++)
                for (uint32_t cp : CPS)
                    for (int corrupt = 0; corrupt < 2; corrupt++)
                        for (int ti = 0; ti < 5; ti++) {
                            if (corrupt && cp != 0x41) continue;
                            Builder b; uint32_t s = b.str(LC16[ti]);
                            Op o; o.kind = plus ? S_PLUS_CH : S_APPEND_CH; o.a = s; o.b = cp; o.c = w | (left << 2);
                            if (corrupt) { o.fault = F_CORRUPT; o.fc = 1 | (5 << 8); }
                            size_t ts = b.target(o);
                            char v[64]; std::snprintf(v, sizeof v, "w%u,%s,U+%X%s", w, left ? "left" : "right", cp, corrupt ? ",invalid" : "");
                            E.cell(nm(plus ? "plus_ch" : "append_ch", v, std::string("dst=") + L(LC16[ti], 16)), b, ts);
                        }
}

void misc_string_ops(Enumerator &E) {
    // one string operand (+ optional second), variants listed per kind
    struct K { uint16_t kind; const char *name; unsigned nvar; };
    const K ks[] = {{S_SUBSTR, "substr", 8}, {S_TRIM, "trim", 3}, {S_CASE, "case", 2}, {S_TOKENIZE, "tokenize", 1}, {S_TO_BUF, "to_buf", 6},
                    {S_TO_STD, "to_std", 12}, {S_OVERLOADS, "overloads", 11}, {S_CODEC, "codec", 4}, {S_FROM_NUM, "from_num", 11}, {S_LITERAL, "literal", 5}, {S_FILL, "fill", 1},
                    {S_NEW_DEFAULT, "new_default", 1}, {S_CLEAR, "clear", 1}, {S_HASH, "hash", 1}, {S_READ, "read", 5}};
    for (const K &k : ks)
        for (unsigned var = 0; var < k.nvar; var++)
            for (int ti = 0; ti < 5; ti++) {
                Builder b;
                Op o; o.kind = k.kind;
                switch (k.kind) {
                case S_SUBSTR: o.a = b.str(LC16[ti]); o.b = (var & 1) ? 1 : 0; o.c = (var & 1) ? 1003 : 1004; o.d = (var >> 1) << 1; break;
                case S_TRIM: o.a = b.str(LC16[ti]); o.b = var; o.c = 2; break;
                case S_CASE: o.a = b.str(LC16[ti]); o.b = var; break;
                case S_TOKENIZE: o.a = b.str(LC16[ti] * 3); o.b = 5; break;
                case S_TO_BUF: o.a = b.str(LC16[ti]); o.b = var; break;
                case S_TO_STD: o.a = b.str(LC16[ti]); o.b = var; break;
                case S_CODEC: o.a = b.str(LC16[ti]); o.b = var; break;
                case S_FROM_NUM: if (ti > 1) continue; o.a = ti ? 24 : 3; o.b = var; o.c = ti ? 2 : 0; break;
                case S_LITERAL: o.b = SRC; o.c = LC16[ti]; o.d = var; break;
                case S_FILL: o.a = LC16[ti]; o.b = 33; break;
                case S_NEW_DEFAULT: if (ti) continue; break;
                default: o.a = b.str(LC16[ti]); o.b = var; break;
                }
                size_t ts = b.target(o);
                E.cell(nm(k.name, "var" + std::to_string(var), std::string("arg=") + L(LC16[ti], 16)), b, ts);
            }
    // two-string operations: before/after, replace, split, compare, find, format
    for (int ti = 0; ti < 5; ti++)
        for (int ai = 1; ai < 5; ai++) {
            for (unsigned which = 0; which < 4; which++)
                for (unsigned ov = 0; ov < 3; ov++) {
                    Builder b; uint32_t s = b.str(LC16[ti]); uint32_t n = b.str(LC16[ai]);
                    Op o; o.kind = S_BEFORE_AFTER; o.a = s; o.b = ov == 2 ? n : 2; o.c = which; o.d = ov | ((ov == 2 ? 0u : 1u) << 3);
                    size_t ts = b.target(o);
                    E.cell(nm("before_after", "which" + std::to_string(which) + ",ov" + std::to_string(ov), std::string("obj=") + L(LC16[ti], 16) + ",sep=" + L(LC16[ai], 16)), b, ts);
                }
            for (unsigned ov = 0; ov < 4; ov++)
                for (unsigned match = 0; match < 2; match++) {
                    Builder b; uint32_t s = b.str(LC16[ti]); uint32_t t2 = b.str(LC16[ai]);
                    Op o; o.kind = S_REPLACE; o.a = s; o.b = match ? 2 : t2; o.c = t2; o.d = ov | ((match ? 1u : 0u) << 3) | (0u << 5);
                    size_t ts = b.target(o);
                    E.cell(nm("replace", "ov" + std::to_string(ov) + (match ? ",match" : ",pool"), std::string("obj=") + L(LC16[ti], 16) + ",to=" + L(LC16[ai], 16)), b, ts);
                }
            // searches and comparisons: they allocate nothing today; each is executed once (k = 0) so that an allocation that appears in one of them is enumerated
            for (unsigned which = 0; which < 5; which++)
                for (unsigned ov = 0; ov < 4; ov++)
                    for (unsigned ci = 0; ci < 2; ci++) {
                        Builder b; uint32_t s = b.str(LC16[ti]); uint32_t t2 = b.str(LC16[ai]);
                        Op o; o.kind = S_FIND; o.a = s; o.b = t2; o.c = 1004; o.d = 0 | (ci << 2) | (which << 3) | (ov << 6);
                        size_t ts = b.target(o);
                        E.cell(nm("find", "which" + std::to_string(which) + ",ov" + std::to_string(ov) + (ci ? ",ci" : ""), std::string("hay=") + L(LC16[ti], 16) + ",needle=" + L(LC16[ai], 16)), b, ts);
                    }
            for (unsigned which = 0; which < 8; which++) {
                Builder b; uint32_t s = b.str(LC16[ti]); uint32_t t2 = b.str(LC16[ai]);
                Op o; o.kind = S_COMPARE; o.a = s; o.b = t2; o.c = 1003; o.d = which;
                size_t ts = b.target(o);
                E.cell(nm("compare", "which" + std::to_string(which), std::string("l=") + L(LC16[ti], 16) + ",r=" + L(LC16[ai], 16)), b, ts);
            }
            for (unsigned ov = 0; ov < 3; ov++) {
                Builder b; uint32_t s = b.str(LC16[ti] * 3); uint32_t t2 = b.str(LC16[ai]);
                Op o; o.kind = S_SPLIT; o.a = s; o.b = ov == 2 ? t2 : 1; o.c = (ai & 1) ? 1004 : 2; o.d = ov | ((ov == 2 ? 0u : 1u) << 3);
                size_t ts = b.target(o);
                E.cell(nm("split", "ov" + std::to_string(ov), std::string("obj=") + L(LC16[ti] * 3, 16) + ",sep=" + L(LC16[ai], 16)), b, ts);
            }
            for (unsigned fi = 0; fi < 11; fi++)
                for (unsigned var = 0; var < 8; var++) {
                    if (var && fi > 2) continue;
                    Builder b; uint32_t s = b.str(LC16[ti]); uint32_t t2 = b.str(LC16[ai]);
                    Op o; o.kind = S_FORMAT; o.a = s; o.b = t2; o.c = fi; o.d = var;
                    size_t ts = b.target(o);
                    E.cell(nm("format", "fmt" + std::to_string(fi) + ",var" + std::to_string(var), std::string("a1=") + L(LC16[ti], 16) + ",a2=" + L(LC16[ai], 16)), b, ts);
                }
            for (unsigned bad = 0; bad < 8; bad++) {
                Builder b; uint32_t s = b.str(LC16[ti]); uint32_t t2 = b.str(LC16[ai]);
                Op o; o.kind = S_FORMAT; o.a = s; o.b = t2; o.c = 0; o.d = 0; o.fault = F_CORRUPT; o.fc = bad;
                size_t ts = b.target(o);
                E.cell(nm("format", "bad" + std::to_string(bad), std::string("a1=") + L(LC16[ti], 16) + ",a2=" + L(LC16[ai], 16)), b, ts);
            }
        }
    // replace / split with many matches (scratch structures that only go to the heap beyond some number of matches)
    for (uint32_t reps : {20u, 40u, 70u, 140u})
        for (unsigned ov = 0; ov < 4; ov++) {
            { Builder b; Op f; f.kind = S_FILL; f.a = reps; f.b = 'a' - 0x20; b.p.ops.push_back(f); uint32_t s = b.nstr++; uint32_t t2 = b.str(5);
              Op o; o.kind = S_REPLACE; o.a = s; o.b = 2; o.c = t2; o.d = ov | (1u << 3); size_t ts = b.target(o);
              E.cell(nm("replace", "ov" + std::to_string(ov) + ",many_matches", "matches=" + std::to_string(reps)), b, ts); }
            if (ov < 3) { Builder b; Op f; f.kind = S_FILL; f.a = reps; f.b = 'a' - 0x20; b.p.ops.push_back(f); uint32_t s = b.nstr++; uint32_t t2 = b.str(1);
              Op o; o.kind = S_SPLIT; o.a = s; o.b = ov == 2 ? t2 : 2; o.c = 1004; o.d = ov | ((ov == 2 ? 0u : 1u) << 3); size_t ts = b.target(o);
              E.cell(nm("split", "ov" + std::to_string(ov) + ",many_pieces", "pieces=" + std::to_string(reps)), b, ts); }
        }
    // to_buffer into an existing buffer, decode into an existing buffer, vector elements
    for (int ti = 0; ti < 5; ti++)
        for (int di = 0; di < 5; di++) {
            for (unsigned which = 0; which < 6; which++) {
                int t = which == 1 ? 2 : which == 2 ? 3 : which == 3 ? 1 : 0;
                Builder b; uint32_t s = b.str(LC16[ti]); uint32_t d = b.buf(t, (t == 1 || t == 3) ? LC12[di] : LC16[di]);
                Op o; o.kind = S_TO_BUFFER_INTO; o.a = s; o.b = d; o.c = which;
                size_t ts = b.target(o);
                E.cell(nm("to_buffer_into", "which" + std::to_string(which), std::string("obj=") + L(LC16[ti], 16) + ",dst=" + L(LC16[di], 16)), b, ts);
            }
            for (unsigned b64 = 0; b64 < 2; b64++)
                for (int corrupt = 0; corrupt < 4; corrupt++) {      // 1 a bad character, 2 one white-space character, 3 line-wrapped text
                    Builder b; uint32_t d = b.buf(0, LC16[di]);
                    Op o; o.kind = S_DECODE; o.a = d; o.b = SRC; o.c = LC16[ti]; o.d = b64;
                    if (corrupt) { o.fault = F_CORRUPT; o.fc = (corrupt == 1 ? 1 : corrupt == 2 ? 3 : 4) | (3 << 8); }
                    size_t ts = b.target(o);
                    E.cell(nm("decode", std::string(b64 ? "base64" : "hex") + (corrupt == 1 ? ",corrupted" : corrupt == 2 ? ",white_space" : corrupt == 3 ? ",line_wrapped" : ""), std::string("raw=") + L(LC16[ti], 16) + ",dst=" + L(LC16[di], 16)), b, ts);
                }
        }
    // std::filesystem::path in and out, the self-aliasing assignments, the stored "..."_stfmt formatter
    for (int ti = 0; ti < 5; ti++)
        for (int di = 0; di < 5; di++) {
            for (unsigned form = 0; form < 7; form++)
                for (int corrupt = 0; corrupt < 2; corrupt++) {
                    if (di && form >= 3 && form != 5) continue;
                    Builder b; uint32_t d = b.str(LC16[di]); if (form == 5) b.ss(di ? 300 : 0);
                    Op o; o.kind = S_PATH; o.a = form == 5 ? 0 : d; o.b = SRC + 6; o.c = LC16[ti]; o.d = form;
                    if (corrupt) { o.fault = F_CORRUPT; o.fc = 1 | ((LC16[ti] / 2) << 8); }
                    size_t ts = b.target(o);
                    E.cell(nm("path", "form" + std::to_string(form) + (corrupt ? ",corrupted" : ""), std::string("path=") + L(LC16[ti], 16) + ",dst=" + L(LC16[di], 16)), b, ts);
                }
            if (di == 0)
                for (unsigned form = 0; form < 7; form++)
                    for (unsigned off = 0; off < 2; off++) {
                        Builder b; uint32_t d = b.str(LC16[ti]);
                        Op o; o.kind = S_SELF_ALIAS; o.a = d; o.b = off ? 1003 : 0; o.c = 1000; o.d = form;
                        size_t ts = b.target(o);
                        E.cell(nm("self_alias", "form" + std::to_string(form) + (off ? ",mid" : ",start"), std::string("dst=") + L(LC16[ti], 16)), b, ts);
                    }
            for (unsigned slot = 0; slot < 4; slot++)
                for (int missing = 0; missing < 2; missing++) {
                    Builder b; uint32_t x = b.str(LC16[ti]); uint32_t y = b.str(LC16[di]);
                    Op o; o.kind = S_STFMT; o.a = x; o.b = y; o.c = slot; if (missing) { o.fault = F_CORRUPT; o.fc = 1; }
                    size_t ts = b.target(o);
                    E.cell(nm("stfmt", "slot" + std::to_string(slot) + (missing ? ",missing_arg" : ""), std::string("a1=") + L(LC16[ti], 16) + ",a2=" + L(LC16[di], 16)), b, ts);
                }
        }
    // stream extraction into an existing string (narrow and wide source) and stream insertion
    for (int ti = 0; ti < 5; ti++) {
        for (int di = 0; di < 5; di++)
            for (unsigned wide = 0; wide < 2; wide++)
                for (int corrupt = 0; corrupt < 2; corrupt++) {
                    Builder b; uint32_t d = b.str(LC16[di]);
                    Op o; o.kind = S_ISTREAM; o.a = d; o.b = SRC + 5; o.c = LC16[ti]; o.d = wide;
                    if (corrupt) { o.fault = F_CORRUPT; o.fc = 1 | ((LC16[ti] / 2) << 8); }
                    size_t ts = b.target(o);
                    E.cell(nm("istream", std::string(wide ? "wide" : "narrow") + (corrupt ? ",corrupted" : ""), std::string("token=") + L(LC16[ti], 16) + ",dst=" + L(LC16[di], 16)), b, ts);
                }
        for (unsigned sink = 0; sink < 3; sink++)
            for (unsigned exc = 0; exc < 2; exc++)
                for (unsigned fmt = 0; fmt < 6; fmt++)
                    for (int missing = 0; missing < 2; missing++) {
                        if (sink == 2 && exc) continue;
                        Builder b; uint32_t x = b.str(ti == 4 ? 70 : LC16[ti]);
                        Op o; o.kind = S_SINKS; o.a = x; o.b = sink | (exc << 2) | (fmt << 3); o.c = 77; if (missing) { if (fmt) continue; o.fault = F_CORRUPT; o.fc = 1; }
                        size_t ts = b.target(o);
                        E.cell(nm("sinks", std::string(sink == 0 ? "narrow" : sink == 1 ? "wide" : "FILE") + (exc ? ",exceptions" : "") + ",fmt" + std::to_string(fmt) + (missing ? ",missing_arg" : ""), std::string("obj=") + L(LC16[ti], 16)), b, ts);
                    }
        for (unsigned wide = 0; wide < 2; wide++) {
            Builder b; uint32_t x = b.str(LC16[ti]);
            Op o; o.kind = S_OSTREAM; o.a = x; o.b = wide;
            size_t ts = b.target(o);
            E.cell(nm("ostream", wide ? "wide" : "narrow", std::string("obj=") + L(LC16[ti], 16)), b, ts);
        }
    }
    for (int ti = 1; ti < 5; ti++)
        for (int mv = 0; mv < 2; mv++) {
            Builder b; uint32_t v = b.vec(LC16[ti] * 4);
            Op o; o.kind = mv ? V_ELEM_MOVE : V_ELEM_COPY; o.a = v; o.b = 0;
            size_t ts = b.target(o);
            E.cell(nm(mv ? "vec_elem_move" : "vec_elem_copy", "", std::string("src=") + L(LC16[ti] * 4, 16)), b, ts);
        }
}

void buffer_ops(Enumerator &E) {
    for (int t = 0; t < 4; t++) {
        const uint32_t *C = (t == 1 || t == 3) ? LC12 : LC16; unsigned lim = (t == 1 || t == 3) ? 12 : 16;
        std::string tn = "t" + std::to_string(t);
        for (int ai = 0; ai < 5; ai++) {
            { Builder b; Op o; o.kind = B_NEW_PTRLEN; o.t = (uint8_t)t; o.a = SRC; o.b = C[ai]; size_t ts = b.target(o); E.cell(nm("buf_new_ptrlen", tn, std::string("len=") + L(C[ai], lim)), b, ts); }
            { Builder b; Op o; o.kind = B_NEW_LITERAL; o.t = (uint8_t)t; o.a = SRC; o.b = C[ai]; size_t ts = b.target(o); E.cell(nm("buf_new_literal", tn, std::string("len=") + L(C[ai], lim)), b, ts); }
            { Builder b; Op o; o.kind = B_NEW_FILL; o.t = (uint8_t)t; o.a = C[ai]; o.b = 9; size_t ts = b.target(o); E.cell(nm("buf_new_fill", tn, std::string("len=") + L(C[ai], lim)), b, ts); }
            { Builder b; uint32_t s = b.buf(t, C[ai]); Op o; o.kind = B_NEW_COPY; o.t = (uint8_t)t; o.a = s; size_t ts = b.target(o); E.cell(nm("buf_new_copy", tn, std::string("src=") + L(C[ai], lim)), b, ts); }
            { Builder b; uint32_t s = b.buf(t, C[ai]); Op o; o.kind = B_NEW_MOVE; o.t = (uint8_t)t; o.a = s; size_t ts = b.target(o); E.cell(nm("buf_new_move", tn, std::string("src=") + L(C[ai], lim)), b, ts); }
            { Builder b; uint32_t s = b.buf(t, C[ai]); Op o; o.kind = B_READ; o.t = (uint8_t)t; o.a = s; o.b = 3; size_t ts = b.target(o); E.cell(nm("buf_to_std_string", tn, std::string("src=") + L(C[ai], lim)), b, ts); }
            for (int di = 0; di < 5; di++) {
                std::string cl = std::string("dst=") + L(C[di], lim) + ",arg=" + L(C[ai], lim);
                { Builder b; uint32_t d = b.buf(t, C[di]); uint32_t s = b.buf(t, C[ai]); Op o; o.kind = B_ASSIGN_COPY; o.t = (uint8_t)t; o.a = d; o.b = s; size_t ts = b.target(o); E.cell(nm("buf_assign_copy", tn, cl), b, ts); }
                { Builder b; uint32_t d = b.buf(t, C[di]); uint32_t s = b.buf(t, C[ai]); Op o; o.kind = B_ASSIGN_MOVE; o.t = (uint8_t)t; o.a = d; o.b = s; size_t ts = b.target(o); E.cell(nm("buf_assign_move", tn, cl), b, ts); }
                { Builder b; uint32_t d = b.buf(t, C[di]); Op o; o.kind = B_ALLOCATE; o.t = (uint8_t)t; o.a = d; o.b = C[ai]; o.c = SRC; size_t ts = b.target(o); E.cell(nm("buf_allocate", tn, cl), b, ts); }
                { Builder b; uint32_t d = b.buf(t, C[di]); Op o; o.kind = B_ALLOCATE_FILL; o.t = (uint8_t)t; o.a = d; o.b = C[ai]; o.c = 5; size_t ts = b.target(o); E.cell(nm("buf_allocate_fill", tn, cl), b, ts); }
            }
            { Builder b; uint32_t d = b.buf(t, C[ai]); Op o; o.kind = B_ASSIGN_COPY; o.t = (uint8_t)t; o.a = d; o.b = d; size_t ts = b.target(o); E.cell(nm("buf_assign_copy", tn + ",self", std::string("dst=") + L(C[ai], lim)), b, ts); }
        }
    }
}

void convert_ops(Enumerator &E) {
    for (int t = 0; t < 4; t++) {
        const uint32_t *C = (t == 1 || t == 3) ? LC12 : LC16; unsigned lim = (t == 1 || t == 3) ? 12 : 16;
        for (unsigned target = 0; target < 5; target++)
            for (unsigned form = 0; form < 2; form++)
                for (unsigned mode = 0; mode < 3; mode++)
                    for (int corrupt = 0; corrupt < 2; corrupt++)
                        for (unsigned lat = 0; lat < (t == 0 ? 2u : 1u); lat++)
                            for (int ai = 0; ai < 5; ai++) {
                                if (lat && (corrupt || mode)) continue;
                                if (mode == 2 && !corrupt) continue;
                                Builder b; uint32_t s = b.buf(t, C[ai]);
                                if (corrupt) { b.p.ops.back().fault = F_CORRUPT; b.p.ops.back().fc = ((C[ai] / 2) << 8) | 1; }
                                Op o; o.kind = B_CONVERT; o.t = (uint8_t)t; o.a = s; o.b = target; o.c = form | (mode << 1) | (lat << 3) | ((ai & 1) << 4);
                                size_t ts = b.target(o);
                                char v[64]; std::snprintf(v, sizeof v, "t%d->%u,%s,mode%u%s%s", t, target, form ? "ptr" : "buf", mode, corrupt ? ",corrupted" : "", lat ? ",latin1" : "");
                                E.cell(nm("convert", v, std::string("src=") + L(C[ai], lim)), b, ts);
                            }
    }
}

void stream_ops(Enumerator &E) {
    for (uint32_t sz : SSZ)
        for (uint32_t add : SADD) {
            std::string cl = "size=" + std::to_string(sz) + ",add=" + std::to_string(add);
            { Builder b; uint32_t s = b.ss(sz); Op o; o.kind = SS_APPEND; o.a = s; o.b = SRC; o.c = add; size_t ts = b.target(o); E.cell(nm("ss_append", "", cl), b, ts); }
            { Builder b; uint32_t s = b.ss(sz); Op o; o.kind = SS_APPEND_AUTO; o.a = s; o.b = 0; o.c = add; size_t ts = b.target(o); E.cell(nm("ss_append_auto", "", cl), b, ts); }
            { Builder b; uint32_t s = b.ss(sz); Op o; o.kind = SS_APPEND_CHAR; o.a = s; o.b = 3; o.c = add; size_t ts = b.target(o); E.cell(nm("ss_append_char", "", cl), b, ts); }
            for (unsigned form = 0; form < 18; form++)
                for (int corrupt = 0; corrupt < 2; corrupt++) {
                    if (corrupt && !(form == 1 || form == 2 || form == 3 || form == 7)) continue;
                    Builder b; uint32_t s = b.ss(sz); Op o; o.kind = SS_SHL_TEXT; o.a = s; o.b = 0; o.c = add; o.d = form;
                    if (corrupt) { o.fault = F_CORRUPT; o.fc = 0 | (2 << 8); }
                    size_t ts = b.target(o);
                    E.cell(nm("ss_shl_text", "form" + std::to_string(form) + (corrupt ? ",corrupted" : ""), cl), b, ts);
                }
            { Builder b; uint32_t s = b.ss(sz); uint32_t x = b.str(add); Op o; o.kind = SS_SHL_STR; o.a = s; o.b = x; size_t ts = b.target(o); E.cell(nm("ss_shl_str", "", cl), b, ts); }
        }
    // every fill level at which sign and digits of the value straddle a capacity boundary (256, 512)
    for (uint32_t sz : {0u, 230u, 231u, 232u, 233u, 234u, 235u, 236u, 237u, 238u, 239u, 240u, 241u, 242u, 243u, 244u, 245u, 246u, 247u, 248u, 249u, 250u, 251u, 252u, 253u, 254u, 255u, 256u, 300u,
                        490u, 491u, 492u, 493u, 494u, 495u, 496u, 497u, 498u, 499u, 500u, 501u, 502u, 503u, 504u, 505u, 506u, 507u, 508u, 509u, 510u, 511u, 512u})
        for (unsigned ty = 0; ty < 6; ty++)
            for (uint32_t vi : {3u, 13u, 25u, 19u}) {
                Builder b; uint32_t s = b.ss(sz); Op o; o.kind = SS_SHL_INT; o.a = s; o.b = vi; o.c = ty; size_t ts = b.target(o);
                E.cell(nm("ss_shl_int", "ty" + std::to_string(ty) + ",v" + std::to_string(vi), "size=" + std::to_string(sz)), b, ts);
            }
    // every fill level just below a capacity boundary x floating-point values with and without a sign, finite and not: text that straddles the boundary
    for (uint32_t sz : {240u, 244u, 246u, 248u, 249u, 250u, 251u, 252u, 253u, 254u, 255u, 256u, 500u, 504u, 506u, 507u, 508u, 509u, 510u, 511u, 512u})
        for (unsigned f = 0; f < 2; f++)
            for (uint32_t vi : {2u, 4u, 11u, 17u, 18u, 19u, 20u}) {
                Builder b; uint32_t s = b.ss(sz); Op o; o.kind = SS_SHL_FLOAT; o.a = s; o.b = vi; o.c = f; size_t ts = b.target(o);
                E.cell(nm("ss_shl_float", std::string(f ? "float" : "double") + ",v" + std::to_string(vi), "size=" + std::to_string(sz)), b, ts);
            }
    for (uint32_t sz : {0u, 250u, 256u, 300u, 510u}) {
        for (unsigned f = 0; f < 2; f++) { Builder b; uint32_t s = b.ss(sz); Op o; o.kind = SS_SHL_FLOAT; o.a = s; o.b = 10; o.c = f; size_t ts = b.target(o); E.cell(nm("ss_shl_float", f ? "float" : "double", "size=" + std::to_string(sz)), b, ts); }
        { Builder b; uint32_t s = b.ss(sz); Op o; o.kind = SS_SHL_CHAR; o.a = s; o.b = 1; size_t ts = b.target(o); E.cell(nm("ss_shl_char", "", "size=" + std::to_string(sz)), b, ts); }
        { Builder b; uint32_t s = b.ss(sz); Op o; o.kind = SS_NEW_MOVE; o.a = s; size_t ts = b.target(o); E.cell(nm("ss_new_move", "", "size=" + std::to_string(sz)), b, ts); }
        for (unsigned f = 0; f < 2; f++)
            for (unsigned m = 0; m < 3; m++) { Builder b; uint32_t s = b.ss(sz); Op o; o.kind = SS_TO_STRING; o.a = s; o.b = f ? 3 : 0; o.c = m; size_t ts = b.target(o);
                E.cell(nm("ss_to_string", std::string(f ? "latin1" : "utf8") + ",mode" + std::to_string(m), "size=" + std::to_string(sz)), b, ts); }
        for (uint32_t sz2 : {0u, 300u}) { Builder b; uint32_t d = b.ss(sz2); uint32_t s = b.ss(sz); Op o; o.kind = SS_MOVE_ASSIGN; o.a = d; o.b = s; size_t ts = b.target(o);
            E.cell(nm("ss_move_assign", "", "dst=" + std::to_string(sz2) + ",src=" + std::to_string(sz)), b, ts); }
    }
    // a stream that has grown to the heap and was then emptied completely (truncate() / erase(everything)): capacity and block stay, size is 0
    for (uint32_t sz : {300u, 1500u})
        for (unsigned how = 0; how < 2; how++)
            for (uint32_t add : {1u, 700u, 3000u})
                for (unsigned form = 0; form < 3; form++) {
                    Builder b; uint32_t s = b.ss(sz);
                    { Op e; e.kind = how ? SS_ERASE : SS_TRUNCATE; e.a = s; e.b = how ? 1004 : 0; b.p.ops.push_back(e); }
                    Op o; o.a = s;
                    if (form == 0) { o.kind = SS_APPEND; o.b = SRC; o.c = add; } else if (form == 1) { o.kind = SS_APPEND_CHAR; o.b = 3; o.c = add; } else { o.kind = SS_SHL_TEXT; o.b = 0; o.c = add; o.d = 2; }
                    size_t ts = b.target(o);
                    E.cell(nm(form == 0 ? "ss_append" : form == 1 ? "ss_append_char" : "ss_shl_text", how ? "after_erase_all" : "after_truncate", "grown_to=" + std::to_string(sz) + ",add=" + std::to_string(add)), b, ts);
                }
    { Builder b; Op o; o.kind = SS_NEW; size_t ts = b.target(o); E.cell(nm("ss_new", "", ""), b, ts); }
}

} // namespace

const char *SK_kind_name(unsigned sk) { TextArg a; a.kind = sk % SK__COUNT; return a.kind_name(); }

// operands beyond the sizes at which helper objects inside the library would leave their in-object storage (32, 64, 256 bytes, 1 KiB),
// and the case-insensitive variants of every search-based operation (the cells above stop at 40 elements and are case-sensitive)
void big_operand_ops(Enumerator &E) {
    const uint32_t HAY[] = {40, 300, 1100}, NEED[] = {5, 40, 300};
    for (uint32_t hay : HAY)
        for (uint32_t nd : NEED)
            for (unsigned ci = 0; ci < 2; ci++) {
                if (nd > hay) continue;
                std::string cl = "hay=" + std::to_string(hay) + ",needle=" + std::to_string(nd);
                std::string cs = ci ? ",ci" : "";
                for (unsigned ov = 0; ov < 3; ov++) {
                    Builder b; uint32_t s = b.str(hay); uint32_t n = b.str(nd);
                    Op o; o.kind = S_SPLIT; o.a = s; o.b = n; o.c = 2; o.d = ov | (ci << 2);
                    size_t ts = b.target(o);
                    E.cell(nm("split", "ov" + std::to_string(ov) + cs + ",big", cl), b, ts);
                }
                for (unsigned ov = 0; ov < 4; ov++) {
                    Builder b; uint32_t s = b.str(hay); uint32_t n = b.str(nd); uint32_t t2 = b.str(7);
                    Op o; o.kind = S_REPLACE; o.a = s; o.b = n; o.c = t2; o.d = ov | (ci << 2);
                    size_t ts = b.target(o);
                    E.cell(nm("replace", "ov" + std::to_string(ov) + cs + ",big", cl), b, ts);
                }
                for (unsigned which = 0; which < 4; which++)
                    for (unsigned ov = 0; ov < 3; ov++) {
                        Builder b; uint32_t s = b.str(hay); uint32_t n = b.str(nd);
                        Op o; o.kind = S_BEFORE_AFTER; o.a = s; o.b = n; o.c = which; o.d = ov | (ci << 2);
                        size_t ts = b.target(o);
                        E.cell(nm("before_after", "which" + std::to_string(which) + ",ov" + std::to_string(ov) + cs + ",big", cl), b, ts);
                    }
                for (unsigned which = 0; which < 5; which++)
                    for (unsigned ov = 0; ov < 4; ov++) {
                        Builder b; uint32_t s = b.str(hay); uint32_t n = b.str(nd);
                        Op o; o.kind = S_FIND; o.a = s; o.b = n; o.c = 1004; o.d = 0 | (ci << 2) | (which << 3) | (ov << 6);
                        size_t ts = b.target(o);
                        E.cell(nm("find", "which" + std::to_string(which) + ",ov" + std::to_string(ov) + cs + ",big", cl), b, ts);
                    }
                if (!ci)
                    for (unsigned which = 0; which < 8; which++) {
                        Builder b; uint32_t s = b.str(hay); uint32_t n = b.str(nd);
                        Op o; o.kind = S_COMPARE; o.a = s; o.b = n; o.c = 1003; o.d = which;
                        size_t ts = b.target(o);
                        E.cell(nm("compare", "which" + std::to_string(which) + ",big", cl), b, ts);
                    }
            }
    // format strings with 300 / 1100 bytes of literal text, every spelling of the call
    for (unsigned fi = 11; fi < 14; fi++)
        for (unsigned var = 0; var < 12; var++)
            for (uint32_t a1 : {5u, 40u, 300u}) {
                Builder b; uint32_t s = b.str(a1); uint32_t t2 = b.str(16);
                Op o; o.kind = S_FORMAT; o.a = s; o.b = t2; o.c = fi; o.d = var;
                size_t ts = b.target(o);
                E.cell(nm("format", "fmt" + std::to_string(fi) + ",var" + std::to_string(var) + ",big", "a1=" + std::to_string(a1)), b, ts);
            }
    // the most negative int / long / long long at every fill level at which the sign fits and the digits do not (plain builds only insert them, ops_ss.cpp)
    for (uint32_t sz : {236u, 237u, 238u, 240u, 244u, 245u, 246u, 247u, 250u, 252u, 254u, 255u, 256u, 500u, 501u, 502u, 510u, 511u, 512u})
        for (unsigned ty : {0u, 2u, 4u})
            for (uint32_t vi : {28u, 29u}) {
                Builder b; uint32_t s = b.ss(sz); Op o; o.kind = SS_SHL_INT; o.a = s; o.b = vi; o.c = ty; size_t ts = b.target(o);
                E.cell(nm("ss_shl_int", "ty" + std::to_string(ty) + ",min" + std::to_string(vi), "size=" + std::to_string(sz)), b, ts);
            }
    // element counts beyond 32 bits (reserved address space, heap seam)
    for (int t = 0; t < 4; t++)
        for (uint32_t dz : {0u, 5u, 40u})
            for (uint32_t sel : {3u, 32u + 20u, 64u + 11u}) {
                Builder b; uint32_t d = b.buf(t, dz);
                Op o; o.kind = B_HUGE; o.t = (uint8_t)t; o.a = d; o.b = sel;
                size_t ts = b.target(o);
                E.cell(nm("huge", "t" + std::to_string(t) + ",sel" + std::to_string(sel), "dst=" + std::to_string(dz)), b, ts);
            }
    // ST::format(substitute_invalid, ...) and wide arguments (well-formed and malformed) with the short formats
    for (unsigned fi : {0u, 2u, 4u})
        for (unsigned var = 8; var < 12; var++)
            for (int corrupt = 0; corrupt < 2; corrupt++)
                for (uint32_t a1 : {5u, 40u, 300u}) {
                    if (corrupt && (var == 8 || var == 11)) continue;
                    Builder b; uint32_t s = b.str(a1); uint32_t t2 = b.str(16);
                    Op o; o.kind = S_FORMAT; o.a = s; o.b = t2; o.c = fi; o.d = var;
                    if (corrupt) { o.fault = F_CORRUPT; o.fc = 1 | (40 << 8); }
                    size_t ts = b.target(o);
                    E.cell(nm("format", "fmt" + std::to_string(fi) + ",var" + std::to_string(var) + (corrupt ? ",corrupted" : ""), "a1=" + std::to_string(a1)), b, ts);
                }
    // the deprecated to_buffer(char_buffer&, bool, utf_validation_t) spelling
    for (unsigned which = 6; which < 8; which++)
        for (unsigned mode = 0; mode < 3; mode++)
            for (uint32_t sz : {5u, 40u})
                for (uint32_t dz : {0u, 5u, 40u}) {
                    Builder b; uint32_t st = b.str(sz); uint32_t d = b.buf(0, dz);
                    Op o; o.kind = S_TO_BUFFER_INTO; o.a = st; o.b = d; o.c = which | (mode << 4);
                    size_t ts = b.target(o);
                    E.cell(nm("to_buffer_into", "which" + std::to_string(which) + ",mode" + std::to_string(mode), "obj=" + std::to_string(sz) + ",dst=" + std::to_string(dz)), b, ts);
                }
    // one-string operations on big receivers
    struct K { uint16_t kind; const char *name; unsigned nvar; };
    const K ks[] = {{S_SUBSTR, "substr", 8}, {S_TRIM, "trim", 3}, {S_CASE, "case", 2}, {S_TOKENIZE, "tokenize", 1}, {S_TO_BUF, "to_buf", 6},
                    {S_TO_STD, "to_std", 12}, {S_OVERLOADS, "overloads", 11}, {S_CODEC, "codec", 4}, {S_HASH, "hash", 1}, {S_READ, "read", 5}};
    for (const K &k : ks)
        for (unsigned var = 0; var < k.nvar; var++)
            for (uint32_t sz : {300u, 1100u}) {
                Builder b; Op o; o.kind = k.kind; o.a = b.str(sz);
                switch (k.kind) {
                case S_SUBSTR: o.b = (var & 1) ? 1 : 0; o.c = (var & 1) ? 1003 : 1004; o.d = (var >> 1) << 1; break;
                case S_TRIM: o.b = var; o.c = 2; break;
                case S_TOKENIZE: o.b = 5; break;
                default: o.b = var; break;
                }
                size_t ts = b.target(o);
                E.cell(nm(k.name, "var" + std::to_string(var) + ",big", "arg=" + std::to_string(sz)), b, ts);
            }
}

void enum_c19(unsigned part, unsigned parts, uint64_t from, EnumVisit visit, void *user, EnumTotals &tot) {
    Enumerator E{part, parts ? parts : 1, visit, user, tot};
    E.from = from;
    buffer_ops(E);
    convert_ops(E);
    stream_ops(E);
    text_ops(E);
    char_ops(E);
    misc_string_ops(E);
    big_operand_ops(E);      // (appended last: the indices of all earlier cells stay what they were)
}

} // namespace A
