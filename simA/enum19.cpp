// C19 fault enumeration (placeholder; filled in below)
#include "run.h"
namespace A {
void enum_c19(unsigned, unsigned, EnumVisit, void *, EnumTotals &) {}
}
