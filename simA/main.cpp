// Engine A command line: batch | dump | shrink | replay | enum19
#include "run.h"
#include <algorithm>
#include <cstdlib>
#include <fstream>
#include <functional>
#include <set>
#include <sstream>
#include <sys/wait.h>
#include <unistd.h>

using namespace A;

static int prop_of(const char *s) { if ((s[0] == 'C' || s[0] == 'c')) ++s; return std::atoi(s); }
static uint64_t run_seed(uint64_t base, int prop, uint64_t index) { return simrt::mix(base, (uint64_t)prop, index); }

static std::string json_escape(const std::string &s) {
    std::string o;
    for (unsigned char ch : s) {
        if (ch == '"' || ch == '\\') { o += '\\'; o += (char)ch; }
        else if (ch < 0x20 || ch >= 0x7F) { char b[8]; std::snprintf(b, sizeof b, "\\u%04x", ch); o += b; }
        else o += (char)ch;
    }
    return o;
}
static std::string one_line(std::string s) { for (auto &ch : s) if (ch == '\n' || ch == '\r') ch = ' '; return s; }

static void print_viol(const char *tag, uint64_t index, uint64_t rseed, const RunResult &rr) {
    std::printf("%s i=%llu runseed=%llu class=%s step=%d site=%s msg=%s\n", tag, (unsigned long long)index, (unsigned long long)rseed,
                rr.viol.cls.c_str(), rr.step, one_line(rr.viol.site).c_str(), one_line(rr.viol.msg).c_str());
    std::fflush(stdout);
}

// ------------------------------------------------------------------ running a plan in a forked child (shrinking)
struct Outcome { std::string cls, site; bool violated = false; };

// Histories that the same worker process executed *before* the failing one.  A library with state of static or thread storage duration (a
// per-thread cache, a free list, a memo table) carries it from one history into the next, so a violation may need its predecessors in order to
// show; a replay is then a sequence of plans.  Empty on a tree without such state (every violation reproduces from its own plan alone).
static std::vector<Plan> g_prefix;
static void run_prefix() { for (const Plan &q : g_prefix) { simrt::run_deadline(60); (void)run_plan(q, nullptr); } simrt::run_deadline(0); }

static Outcome run_forked(const Plan &p) {
    Outcome out;
    int fd[2];
    if (pipe(fd) != 0) { out.cls = "infra"; return out; }
    std::fflush(stdout);
    pid_t pid = fork();
    if (pid == 0) {
        close(fd[0]);
        dup2(fd[1], 1);
        close(fd[1]);
        alarm(g_prefix.empty() ? 20 : 120);
        run_prefix();
        RunResult rr = run_plan(p, nullptr);
        if (rr.viol.set) std::printf("V class=%s site=%s\n", rr.viol.cls.c_str(), one_line(rr.viol.site).c_str());
        else std::printf("OK\n");
        std::fflush(stdout);
        _exit(0);
    }
    close(fd[1]);
    std::string buf; char tmp[512]; ssize_t n;
    while ((n = read(fd[0], tmp, sizeof tmp)) > 0) buf.append(tmp, (size_t)n);
    close(fd[0]);
    int st = 0; waitpid(pid, &st, 0);
    auto field = [&](const char *key) {
        std::string k = std::string(" ") + key + "=";
        size_t p0 = buf.find(k);
        if (p0 == std::string::npos) return std::string();
        p0 += k.size();
        size_t e = buf.find_first_of(" \n", p0);
        return buf.substr(p0, e == std::string::npos ? std::string::npos : e - p0);
    };
    if (buf.compare(0, 2, "V ") == 0) { out.violated = true; out.cls = field("class"); out.site = field("site"); }
    else if (buf.find("FATAL ") != std::string::npos) {
        size_t f = buf.find("FATAL ");
        buf = buf.substr(f);
        out.violated = true; out.cls = field("class"); out.site = field("site");
        // the detail of aborts distinguishes assertion texts
    } else if (buf.compare(0, 2, "OK") == 0) { out.violated = false; }
    else {
        out.violated = true;
        if (WIFSIGNALED(st)) { out.cls = "signal"; }
        else if (WIFEXITED(st) && WEXITSTATUS(st) == simrt::EXIT_SANITIZER) out.cls = "sanitizer";
        else out.cls = "died";
    }
    return out;
}

static Plan shrink(const Plan &orig, const std::function<bool(const Plan &)> &holds, unsigned &tries) {
    Plan best = orig;
    auto still = [&](const Plan &cand) { ++tries; return holds(cand); };
    // ddmin over the operation vector
    size_t chunk = std::max<size_t>(1, best.ops.size() / 2);
    while (chunk >= 1 && tries < 1500) {
        bool removed = false;
        for (size_t start = 0; start < best.ops.size() && tries < 1500;) {
            Plan cand = best;
            size_t end = std::min(best.ops.size(), start + chunk);
            cand.ops.erase(cand.ops.begin() + start, cand.ops.begin() + end);
            if (!cand.ops.empty() && still(cand)) { best = cand; removed = true; }
            else start += chunk;
        }
        if (chunk == 1 && !removed) break;
        if (!removed) chunk /= 2; else chunk = std::min(chunk, std::max<size_t>(1, best.ops.size() / 2));
        if (chunk == 0) break;
    }
    // greedy simplification passes
    bool progress = true;
    while (progress && tries < 2500) {
        progress = false;
        for (size_t i = 0; i < best.ops.size(); i++) {
            Op &o = best.ops[i];
            if (o.uw) { Plan cand = best; cand.ops[i].uw = 0; if (still(cand)) { best = cand; progress = true; continue; } }
            if (o.thr) { Plan cand = best; cand.ops[i].thr = 0; if (still(cand)) { best = cand; progress = true; continue; } }
            if (o.fault) { Plan cand = best; cand.ops[i].fault = 0; cand.ops[i].fa = cand.ops[i].fc = 0; if (still(cand)) { best = cand; progress = true; continue; } }
            if ((o.fault & F_ALLOC) && o.fa > 1) { Plan cand = best; cand.ops[i].fa = 1; if (still(cand)) { best = cand; progress = true; continue; } }
            const char *roles = META[o.kind].roles;
            uint32_t Op::*slot[4] = {&Op::a, &Op::b, &Op::c, &Op::d};
            for (int s = 0; s < 4; s++) {
                uint32_t cur = best.ops[i].*slot[s];
                if (roles[s] == 'N' && cur > 0) {
                    static const uint32_t CAND[] = {0, 1, 11, 12, 15, 16, 17, 24, 32, 255, 256, 257, 512};
                    for (uint32_t v : CAND) if (v < cur) { Plan cand = best; cand.ops[i].*slot[s] = v; if (still(cand)) { best = cand; progress = true; break; } }
                } else if ((roles[s] == 'X' || roles[s] == 'f' || roles[s] == 'c' || roles[s] == 'i' || roles[s] == 'K' || roles[s] == 'm') && cur != 0) {
                    Plan cand = best; cand.ops[i].*slot[s] = 0; if (still(cand)) { best = cand; progress = true; }
                } else if ((roles[s] == 'B' || roles[s] == 'C' || roles[s] == 'S' || roles[s] == 'M' || roles[s] == 'V') && cur > 3) {
                    Plan cand = best; cand.ops[i].*slot[s] = cur % 4; if (still(cand)) { best = cand; progress = true; }
                }
            }
        }
        // knobs
        if (best.k.text_mix != 0) { Plan cand = best; cand.k.text_mix = 0; if (still(cand)) { best = cand; progress = true; } }
        if (best.k.heap_policy != 0) { Plan cand = best; cand.k.heap_policy = 0; if (still(cand)) { best = cand; progress = true; } }
    }
    return best;
}

static bool write_replay(const std::string &path, const Plan &p, const Outcome &o, const RunResult &rr, uint64_t base, uint64_t index, unsigned tries, size_t orig_ops) {
    std::ofstream f(path);
    if (!f) return false;
    const char *variant = std::getenv("SIM_VARIANT");
    f << "{\n  \"engine\": \"simA\",\n  \"variant\": \"" << (variant ? variant : "plain") << "\",\n  \"property\": \"C" << (p.k.prop < 10 ? "0" : "") << p.k.prop << "\",\n";
    f << "  \"verif_seed\": " << base << ",\n  \"index\": " << index << ",\n  \"run_seed\": " << p.k.seed << ",\n";
    f << "  \"class\": \"" << json_escape(o.cls) << "\",\n  \"site\": \"" << json_escape(o.site) << "\",\n";
    f << "  \"message\": \"" << json_escape(rr.viol.msg) << "\",\n";
    f << "  \"original_ops\": " << orig_ops << ",\n  \"minimised_ops\": " << p.ops.size() << ",\n  \"shrink_executions\": " << tries << ",\n";
    if (!g_prefix.empty()) {
        f << "  \"note\": \"the library under test keeps state between histories: the plans under earlier_histories are executed first, in this order, in the same process\",\n";
        f << "  \"earlier_histories\": [";
        for (size_t k = 0; k < g_prefix.size(); k++) {
            f << (k ? ",\n    {\"ops\": [\n" : "\n    {\"ops\": [\n");
            std::istringstream ps(plan_to_text(g_prefix[k])); std::string pl; bool pf = true;
            while (std::getline(ps, pl)) { f << (pf ? "      \"" : ",\n      \"") << json_escape(pl) << "\""; pf = false; }
            f << "\n    ]}";
        }
        f << "\n  ],\n";
    }
    f << "  \"plan\": [\n";
    std::istringstream is(plan_to_text(p));
    std::string line; bool first = true;
    while (std::getline(is, line)) { f << (first ? "    \"" : ",\n    \"") << json_escape(line) << "\""; first = false; }
    f << "\n  ]\n}\n";
    return (bool)f;
}

static bool read_replay(const std::string &path, Plan &p, std::string &cls, std::string &err) {
    std::ifstream f(path);
    if (!f) { err = "cannot open " + path; return false; }
    std::stringstream ss; ss << f.rdbuf();
    std::string all = ss.str();
    size_t c0 = all.find("\"class\": \"");
    if (c0 != std::string::npos) { c0 += 10; cls = all.substr(c0, all.find('"', c0) - c0); }
    auto lines_of = [](const std::string &body) {
        std::string text; size_t pos = 0;
        while ((pos = body.find('"', pos)) != std::string::npos) {
            size_t q = pos + 1; while (q < body.size() && body[q] != '"') q += body[q] == '\\' ? 2 : 1;
            if (q >= body.size()) break;
            text += body.substr(pos + 1, q - pos - 1) + "\n"; pos = q + 1;
        }
        return text;
    };
    g_prefix.clear();
    size_t h0 = all.find("\"earlier_histories\": [");
    if (h0 != std::string::npos) {
        size_t hend = all.find("\n  ],", h0);
        size_t o = h0;
        while ((o = all.find("{\"ops\": [", o)) != std::string::npos && o < hend) {
            size_t e2 = all.find("]}", o);
            Plan q; std::string er2;
            if (!plan_from_text(lines_of(all.substr(o + 9, e2 - o - 9)), q, er2)) { err = "earlier history: " + er2; return false; }
            g_prefix.push_back(q); o = e2;
        }
    }
    size_t p0 = all.find("\"plan\": [");
    if (p0 == std::string::npos) { err = "no plan in replay file"; return false; }
    size_t e = all.find(']', p0);
    std::string body = all.substr(p0 + 9, e - p0 - 9), text;
    size_t pos = 0;
    while ((pos = body.find('"', pos)) != std::string::npos) {
        size_t q = body.find('"', pos + 1);
        if (q == std::string::npos) break;
        text += body.substr(pos + 1, q - pos - 1) + "\n";
        pos = q + 1;
    }
    return plan_from_text(text, p, err);
}

static const char *arg(int argc, char **argv, const char *name, const char *dflt) {
    for (int i = 2; i + 1 < argc; i++) if (!std::strcmp(argv[i], name)) return argv[i + 1];
    return dflt;
}
static bool flag(int argc, char **argv, const char *name) {
    for (int i = 2; i < argc; i++) if (!std::strcmp(argv[i], name)) return true;
    return false;
}

static void print_summary(const Stats &st, uint64_t runs, uint64_t violations, const std::set<uint64_t> &distinct, uint64_t nontrivial_runs) {
    std::printf("S {\"runs\": %llu, \"violations\": %llu, \"ops\": %llu, \"steps\": %llu, \"checks\": %llu, \"nontrivial_runs\": %llu, \"distinct_nontrivial\": %zu, "
                "\"faults\": {\"alloc_planned\": %llu, \"alloc_fired\": %llu, \"corrupt_planned\": %llu, \"corrupt_thrown\": %llu}, \"sut_allocs\": %llu, \"exceptions\": {",
                (unsigned long long)runs, (unsigned long long)violations, (unsigned long long)st.ops, (unsigned long long)st.steps, (unsigned long long)st.checks,
                (unsigned long long)nontrivial_runs, distinct.size(), (unsigned long long)st.faults_alloc_planned, (unsigned long long)st.faults_alloc_fired,
                (unsigned long long)st.faults_corrupt_planned, (unsigned long long)st.faults_corrupt_thrown, (unsigned long long)simrt::heap_total_sut_allocs());
    for (int i = 1; i < 8; i++) std::printf("%s\"%s\": %llu", i > 1 ? ", " : "", exc_name(i), (unsigned long long)st.exceptions[i]);
    std::printf("}, \"probes\": {");
    for (int i = 0; i < PR__COUNT; i++) std::printf("%s\"%s\": %llu", i ? ", " : "", probe_name(i), (unsigned long long)st.probe[i]);
    std::printf("}}\n");
    std::fflush(stdout);
}

struct EnumCtx { Stats st; uint64_t runs = 0, viols = 0; std::set<uint64_t> distinct; unsigned max_report; bool per_run; bool forked = false; };
static bool enum_visit(const Plan &plan, const char *cell, unsigned k, unsigned i, void *user) {
    EnumCtx &e = *static_cast<EnumCtx *>(user);
    if (e.forked) {
        // robust mode: used by the supervisor to get past a plan that kills the process
        Outcome o = run_forked(plan);
        ++e.runs;
        if (o.violated) {
            ++e.viols;
            if (e.viols <= e.max_report) {
                std::printf("V i=%llu cell=%s k=%u fa=%u class=%s step=-1 site=%s msg=(process-ending event)\n", (unsigned long long)g_run_index, cell, k, i, o.cls.c_str(), o.site.c_str());
                std::printf("P %s\n", json_escape(plan_to_text(plan)).c_str());
                std::fflush(stdout);
            }
        }
        return true;
    }
    RunResult rr = run_plan(plan, &e.st);
    ++e.runs;
    simrt::Hash h; h.str(cell); h.u64(i);
    if (i > 0 && rr.fault_fired) e.distinct.insert(h.h);
    if (e.per_run) std::printf("R cell=%s k=%u i=%u sig=%016llx\n", cell, k, i, (unsigned long long)rr.sig);
    if (rr.viol.set) {
        ++e.viols;
        if (e.viols <= e.max_report) {
            std::printf("V i=%llu cell=%s k=%u fa=%u class=%s step=%d site=%s msg=%s\n", (unsigned long long)g_run_index, cell, k, i, rr.viol.cls.c_str(), rr.step, one_line(rr.viol.site).c_str(), one_line(rr.viol.msg).c_str());
            std::printf("P %s\n", json_escape(plan_to_text(plan)).c_str());
            std::fflush(stdout);
        }
    }
    return true;
}

int main(int argc, char **argv) {
    if (argc < 2) { std::fprintf(stderr, "usage: simA batch|dump|shrink|replay|enum19 ...\n"); return 2; }
    std::setvbuf(stdout, nullptr, _IOLBF, 0);
    simrt::fatal_install();
    std::string cmd = argv[1];
    int prop = prop_of(arg(argc, argv, "--prop", "C05"));
    uint64_t base = std::strtoull(arg(argc, argv, "--seed", "1"), nullptr, 10);

    // warm-up: lets libstdc++ / libc perform their one-time lazy allocations outside any ledger epoch.  Deliberately uses no
    // library-under-test code, so a broken tree cannot kill the process before the first run is attributed.
    {
        simrt::SutScope sut;
        std::ostringstream os; os << 1.5 << "x" << 42; std::wostringstream ws; ws << L"w" << 7;
        std::istringstream is("tok en"); std::string t; is >> t; std::wistringstream wis(L"tok en"); std::wstring wt; wis >> wt;
        try { throw std::runtime_error("warm-up"); } catch (const std::exception &) { }
        std::function<void()> f = [t] { }; f();
        std::vector<std::string> v(3, std::string(40, 'x')); v.emplace_back("y");
        char b[64]; std::snprintf(b, sizeof b, "%g %e %f", 1.5, 2.5, 3.5);
    }

    if (cmd == "batch") {
        uint64_t start = std::strtoull(arg(argc, argv, "--start", "0"), nullptr, 10);
        uint64_t count = std::strtoull(arg(argc, argv, "--count", "1000"), nullptr, 10);
        uint64_t stride = std::strtoull(arg(argc, argv, "--stride", "1"), nullptr, 10);
        double max_s = std::atof(arg(argc, argv, "--max-seconds", "0"));
        bool per_run = flag(argc, argv, "--per-run");
        unsigned max_report = (unsigned)std::atoi(arg(argc, argv, "--max-report", "20"));
        Stats st; std::set<uint64_t> distinct; uint64_t viols = 0, runs = 0, nt = 0;
        bool stop_after_violation = false;
        std::set<uint64_t> sites; const char *sitefile = arg(argc, argv, "--sites", nullptr); if (sitefile) g_sites = &sites;
        struct timespec t0; clock_gettime(CLOCK_MONOTONIC, &t0);
        for (uint64_t n = 0; n < count; n++) {
            uint64_t i = start + n * stride;
            uint64_t rs = run_seed(base, prop, i);
            Plan p = gen_plan(prop, rs);
            simrt::fatal_context("prop=C%02d i=%llu runseed=%llu", prop, (unsigned long long)i, (unsigned long long)rs);
            g_run_index = i; simrt::run_deadline(60);
            RunResult rr = run_plan(p, &st);
            ++runs;
            if (rr.nontrivial) { ++nt; distinct.insert(rr.sig); }
            if (per_run) std::printf("R i=%llu sig=%016llx nt=%d ops=%llu steps=%llu\n", (unsigned long long)i, (unsigned long long)rr.sig, rr.nontrivial ? 1 : 0,
                                     (unsigned long long)rr.ops, (unsigned long long)rr.steps);
            if (rr.viol.set) { ++viols; print_viol("V", i, rs, rr); stop_after_violation = true; }
            if (max_s > 0 && (n & 63) == 63) {
                struct timespec t1; clock_gettime(CLOCK_MONOTONIC, &t1);
                if ((t1.tv_sec - t0.tv_sec) + (t1.tv_nsec - t0.tv_nsec) * 1e-9 > max_s) { ++n; std::printf("T stopped_after=%llu\n", (unsigned long long)n); break; }
            }
            // a violated run may have corrupted this process (writes through dangling pointers): report and let the supervisor restart us
            if (stop_after_violation) break;
        }
        simrt::run_deadline(0);
        print_summary(st, runs, viols, distinct, nt);
        const char *sigfile = arg(argc, argv, "--sigs", nullptr);
        if (sigfile) { std::ofstream f(sigfile, std::ios::binary); for (uint64_t h : distinct) f.write((const char *)&h, 8); }
        if (sitefile) { std::ofstream f(sitefile, std::ios::binary); for (uint64_t h : sites) f.write((const char *)&h, 8); }
        if (stop_after_violation) { std::fflush(stdout); _exit(3); }
        return 0;
    }
    if (cmd == "dump") {
        uint64_t i = std::strtoull(arg(argc, argv, "--index", "0"), nullptr, 10);
        Plan p = gen_plan(prop, run_seed(base, prop, i));
        std::fputs(plan_to_text(p).c_str(), stdout);
        return 0;
    }
    if (cmd == "shrink") {
        uint64_t i = std::strtoull(arg(argc, argv, "--index", "0"), nullptr, 10);
        const char *out = arg(argc, argv, "--out", "replay.json");
        const char *planfile = arg(argc, argv, "--plan-file", nullptr);
        Plan p;
        if (planfile) { std::ifstream f(planfile); std::stringstream ss; ss << f.rdbuf(); std::string err; if (!plan_from_text(ss.str(), p, err)) { std::fprintf(stderr, "%s\n", err.c_str()); return 2; } }
        else p = gen_plan(prop, run_seed(base, prop, i));
        // gate 1: the same plan twice must give the same outcome
        Outcome a = run_forked(p), b = run_forked(p);
        unsigned tries = 0;
        const char *cs = arg(argc, argv, "--chain-start", nullptr);
        if ((!a.violated || !b.violated || a.cls != b.cls) && cs && !planfile) {
            // Not from its own plan alone.  The worker that saw it had executed other histories before, in the same process: a library that keeps
            // state between calls (static or thread storage duration) carries it along.  Re-execute that worker's sequence; if the violation is
            // back - twice - the replay is the sequence, minimised to the predecessors that matter.
            uint64_t c0 = std::strtoull(cs, nullptr, 10), stride = std::strtoull(arg(argc, argv, "--chain-stride", "1"), nullptr, 10);
            if (stride == 0) stride = 1;
            for (uint64_t j = c0; j < i && g_prefix.size() < 6000; j += stride) g_prefix.push_back(gen_plan(prop, run_seed(base, prop, j)));
            a = run_forked(p); b = run_forked(p);
            if (a.violated && b.violated && a.cls == b.cls) {
                struct timespec t0; clock_gettime(CLOCK_MONOTONIC, &t0);
                auto elapsed = [&] { struct timespec t1; clock_gettime(CLOCK_MONOTONIC, &t1); return (t1.tv_sec - t0.tv_sec) + (t1.tv_nsec - t0.tv_nsec) * 1e-9; };
                auto holds_with = [&](const std::vector<Plan> &pre) { std::vector<Plan> keep; keep.swap(g_prefix); g_prefix = pre; ++tries; Outcome o = run_forked(p); g_prefix.swap(keep); return o.violated && o.cls == a.cls; };
                // ddmin over the predecessors
                std::vector<Plan> best = g_prefix;
                size_t chunk = std::max<size_t>(1, best.size() / 2);
                while (chunk >= 1 && elapsed() < 40) {
                    bool removed = false;
                    for (size_t st = 0; st < best.size() && elapsed() < 40;) {
                        std::vector<Plan> cand = best; size_t en = std::min(best.size(), st + chunk);
                        cand.erase(cand.begin() + st, cand.begin() + en);
                        if (holds_with(cand)) { best = cand; removed = true; } else st += chunk;
                    }
                    if (chunk == 1 && !removed) break;
                    if (!removed) chunk /= 2; else chunk = std::min(chunk, std::max<size_t>(1, best.size() / 2));
                    if (chunk == 0) break;
                }
                g_prefix = best;
                // ... and over the operations of each predecessor that is left (at most eight of them)
                for (size_t k = 0; k < g_prefix.size() && k < 4 && elapsed() < 70; k++) {
                    Plan orig = g_prefix[k];
                    g_prefix[k] = shrink(orig, [&](const Plan &cand) { Plan keep = g_prefix[k]; g_prefix[k] = cand; Outcome o = run_forked(p); g_prefix[k] = keep; return o.violated && o.cls == a.cls; }, tries);
                    Outcome chk = run_forked(p); if (!chk.violated || chk.cls != a.cls) g_prefix[k] = orig;
                }
            }
        }
        if (!a.violated || !b.violated || a.cls != b.cls) {
            std::printf("NOREPRO first=%s second=%s\n", a.violated ? a.cls.c_str() : "ok", b.violated ? b.cls.c_str() : "ok");
            return 2;
        }
        Plan m = shrink(p, [&](const Plan &cand) { Outcome o = run_forked(cand); return o.violated && o.cls == a.cls; }, tries);
        Outcome fin = run_forked(m);
        if (!fin.violated || fin.cls != a.cls) { m = p; fin = a; }
        // message for the replay file (only when the violation is not fatal)
        RunResult rr;
        rr.viol.msg = "";
        if (fin.cls != "abort" && fin.cls != "terminate" && fin.cls != "signal" && fin.cls != "sanitizer" && fin.cls != "no_progress" && fin.cls != "died") {
            int fd[2]; if (pipe(fd) == 0) {
                pid_t pid = fork();
                if (pid == 0) { close(fd[0]); run_prefix(); RunResult r2 = run_plan(m, nullptr); std::string s = r2.viol.msg; ssize_t w = write(fd[1], s.data(), s.size()); (void)w; _exit(0); }
                close(fd[1]); char tmp[1024]; ssize_t n; while ((n = read(fd[0], tmp, sizeof tmp)) > 0) rr.viol.msg.append(tmp, (size_t)n); close(fd[0]); int st; waitpid(pid, &st, 0);
            }
        }
        if (!write_replay(out, m, fin, rr, base, i, tries, p.ops.size())) { std::printf("cannot write %s\n", out); return 2; }
        if (g_prefix.empty()) std::printf("SHRUNK class=%s site=%s ops=%zu->%zu executions=%u file=%s\n", fin.cls.c_str(), fin.site.c_str(), p.ops.size(), m.ops.size(), tries, out);
        else { size_t po = 0; for (const Plan &q : g_prefix) po += q.ops.size();
               std::printf("SHRUNK class=%s site=%s ops=%zu->%zu earlier_histories=%zu (%zu ops; the library keeps state between histories) executions=%u file=%s\n", fin.cls.c_str(), fin.site.c_str(), p.ops.size(), m.ops.size(), g_prefix.size(), po, tries, out); }
        return 0;
    }
    if (cmd == "replay") {
        if (argc < 3) return 2;
        Plan p; std::string cls, err;
        if (!read_replay(argv[2], p, cls, err)) { std::fprintf(stderr, "%s\n", err.c_str()); return 2; }
        if (flag(argc, argv, "--show")) std::fputs(plan_to_text(p).c_str(), stdout);
        simrt::fatal_context("prop=C%02d replay (earlier history)", p.k.prop);
        run_prefix();
        simrt::fatal_context("prop=C%02d replay", p.k.prop);
        RunResult rr = run_plan(p, nullptr);
        if (rr.viol.set) { print_viol("V", 0, p.k.seed, rr); return 1; }
        std::printf("OK no violation (expected class %s)\n", cls.c_str());
        return 0;
    }
    if (cmd == "enum19") {
        unsigned part = (unsigned)std::atoi(arg(argc, argv, "--part", "0")), parts = (unsigned)std::atoi(arg(argc, argv, "--parts", "1"));
        EnumCtx e; e.max_report = (unsigned)std::atoi(arg(argc, argv, "--max-report", "20")); e.per_run = flag(argc, argv, "--per-run"); e.forked = flag(argc, argv, "--fork");
        EnumTotals tot;
        uint64_t from = std::strtoull(arg(argc, argv, "--from", "0"), nullptr, 10);
        enum_c19(part, parts, from, enum_visit, &e, tot);
        std::printf("E {\"cells\": %llu, \"alloc_points\": %llu, \"executions\": %llu, \"max_k\": %llu}\n", (unsigned long long)tot.cells,
                    (unsigned long long)tot.alloc_points, (unsigned long long)tot.executions, (unsigned long long)tot.max_k);
        print_summary(e.st, e.runs, e.viols, e.distinct, e.distinct.size());
        return 0;
    }
    std::fprintf(stderr, "unknown command %s\n", cmd.c_str());
    return 2;
}
