// Engine A: straight-line scenarios on local objects (operation B_STRAIGHT).
//
// This translation unit is compiled at -O2 and *without* -fsanitize-coverage=trace-pc in every variant. The step clock's callbacks are opaque
// calls at every basic-block edge: they keep the optimiser from carrying anything across them, and so hide exactly the class of defect that only
// exists once the compiler may reorder and forward memory accesses inside one inlined function (type-based alias analysis, store forwarding) -
// which is how the library is compiled in its users' programs. Everything here is bounded code on objects that live and die inside one function;
// the wall-clock deadline stands in for the step clock.
#include <string_theory/char_buffer>
#include <string>
#include <cstdint>
#include <utility>

namespace {

template <class T> struct Lim { enum { v = sizeof(T) == 1 || sizeof(T) == 2 ? 16 : 12 }; };
template <> struct Lim<wchar_t> { enum { v = 12 }; };

template <class T> static bool same(const ST::buffer<T> &q, const std::basic_string<T> &m) {
    return q.size() == m.size() && std::basic_string<T>(q.data(), q.size()) == m && q.data()[q.size()] == T(0);
}

// sizes known at run time only
template <class T> __attribute__((flatten)) static const char *dynamic_sizes(uint32_t a, uint32_t b, uint32_t d) {
    typedef ST::buffer<T> Buf; typedef std::basic_string<T> Str;
    const size_t lim = Lim<T>::v;
    const size_t n1 = 1 + b % (lim + 3), n2 = 1 + d % (lim + 3);
    const T c1 = (T)('a' + b % 26), c2 = (T)('A' + d % 26), c3 = (T)('0' + (b >> 8) % 10);
    Buf x(n1, c1), y(n2, c2);
    Str mx(n1, c1), my(n2, c2);
    x[(b >> 4) % n1] = c3; mx[(b >> 4) % n1] = c3;
    y.data()[(d >> 4) % n2] = c3; my[(d >> 4) % n2] = c3;
    switch (a % 4) {
    case 0: x = std::move(y); if (!same(x, my)) return "x = std::move(y): x does not hold y's value"; if (y.data()[y.size()] != T(0)) return "x = std::move(y): the moved-from object has no terminator"; break;
    case 1: { Buf z(std::move(x)); if (!same(z, mx)) return "z(std::move(x)): z does not hold x's value"; x = y; if (!same(x, my) || !same(y, my)) return "x = y after a move: values differ"; break; }
    case 2: { using std::swap; swap(x, y); if (!same(x, my) || !same(y, mx)) return "swap(x, y): values not exchanged"; break; }
    default: x = y; y.allocate(n1, c1); if (!same(x, my)) return "x = y; y.allocate(): x changed with y"; if (!same(y, Str(n1, c1))) return "allocate(n, c): wrong contents"; break;
    }
    return nullptr;
}

// sizes known at compile time (loops unroll, stores become vector stores)
template <class T, size_t NA, size_t NB> __attribute__((noinline, flatten)) static const char *fixed_sizes(T ca, T cb, unsigned form) {
    typedef ST::buffer<T> Buf;
    Buf x, y;
    x.allocate(NA); y.allocate(NB);
    for (size_t i = 0; i < NA; ++i) x[i] = ca;
    for (size_t i = 0; i < NB; ++i) y[i] = cb;
    if (form == 0) {
        x = std::move(y);
        if (x.size() != NB) return "x = std::move(y): wrong size";
        for (size_t i = 0; i < NB; ++i) if (x.data()[i] != cb) return "x = std::move(y): x does not hold y's elements";
        if (x.data()[NB] != 0) return "x = std::move(y): no terminator";
        if (y.data()[y.size()] != 0) return "x = std::move(y): the moved-from object has no terminator";
    } else if (form == 1) {
        Buf z(std::move(x));
        if (z.size() != NA) return "z(std::move(x)): wrong size";
        for (size_t i = 0; i < NA; ++i) if (z.data()[i] != ca) return "z(std::move(x)): z does not hold x's elements";
        if (z.data()[NA] != 0 || x.data()[x.size()] != 0) return "z(std::move(x)): no terminator";
    } else if (form == 2) {
        x = y;
        for (size_t i = 0; i < NB; ++i) y[i] = ca;
        if (x.size() != NB) return "x = y: wrong size";
        for (size_t i = 0; i < NB; ++i) if (x.data()[i] != cb) return "x = y, then y written: x changed";
        if (x.data()[NB] != 0) return "x = y: no terminator";
    } else {
        using std::swap; swap(x, y);
        if (x.size() != NB || y.size() != NA) return "swap: wrong sizes";
        for (size_t i = 0; i < NB; ++i) if (x.data()[i] != cb) return "swap: x does not hold y's elements";
        for (size_t i = 0; i < NA; ++i) if (y.data()[i] != ca) return "swap: y does not hold x's elements";
        if (x.data()[NB] != 0 || y.data()[NA] != 0) return "swap: no terminator";
    }
    return nullptr;
}

template <class T> static const char *run_type(uint32_t a, uint32_t b, uint32_t d) {
    if ((a >> 2) & 1) return dynamic_sizes<T>(a, b, d);
    const T ca = (T)('a' + b % 26), cb = (T)('A' + d % 26); const unsigned form = a % 4;
    switch ((a >> 3) % 6) {
    case 0: return fixed_sizes<T, 5, 7>(ca, cb, form);
    case 1: return fixed_sizes<T, 11, 3>(ca, cb, form);
    case 2: return fixed_sizes<T, 8, 8>(ca, cb, form);
    case 3: return fixed_sizes<T, 3, 20>(ca, cb, form);
    case 4: return fixed_sizes<T, 20, 4>(ca, cb, form);
    default: return fixed_sizes<T, 1, 11>(ca, cb, form);
    }
}

} // namespace

namespace A {
std::string straight_line_run(int t, uint32_t a, uint32_t b, uint32_t d) {
    const char *r = t == 0 ? run_type<char>(a, b, d) : t == 1 ? run_type<wchar_t>(a, b, d) : t == 2 ? run_type<char16_t>(a, b, d) : run_type<char32_t>(a, b, d);
    return r ? std::string(r) : std::string();
}
}
