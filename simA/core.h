// Engine A — object-history simulator: shared declarations.
#pragma once
#include <exception>
#include <functional>
#include "../simrt/simrt.h"
#include "kinds.h"

#include <string_theory/string>
#include <string_theory/string_stream>
#include <string_theory/format>
#include <string_theory/codecs>
#include <string_theory/iostream>

#include <cstring>
#include <string>
#include <vector>
#include <memory>
#include <sstream>

namespace A {

using simrt::Rng;

// ------------------------------------------------------------------ properties / configs
enum Prop { P_C04 = 4, P_C05 = 5, P_C16 = 16, P_C18 = 18, P_C19 = 19 };

// ------------------------------------------------------------------ plan
enum FaultKind : uint8_t { F_NONE = 0, F_ALLOC = 1, F_CORRUPT = 2, F_ALLOC_CORRUPT = 3 };

struct Op {
    uint16_t kind = 0;
    uint8_t t = 0;            // element type index for buffer ops: 0 char,1 wchar_t,2 char16_t,3 char32_t
    uint32_t a = 0, b = 0, c = 0, d = 0;
    uint8_t fault = F_NONE;
    uint32_t fa = 0;          // F_ALLOC: index (1-based) of the SUT allocation of this op that fails
    uint32_t fc = 0;          // F_CORRUPT: (corruption kind) | (position selector << 8)
    uint8_t uw = 0;           // 1: the step is executed from a destructor while another exception is propagating (std::uncaught_exceptions() > 0)
    uint8_t thr = 0;          // who executes the step: 0 the main thread, 1-2 one of the long-lived helper threads (handed over and joined: properly synchronised)
};

struct Knobs {
    int prop = 5;
    uint64_t seed = 0;        // run seed (informational; the plan is self-contained)
    uint64_t data_seed = 1;   // seeds the data-source table
    uint32_t pool_cap = 8;
    uint32_t heap_policy = 0, fill_fresh = 0xA5, fill_freed = 0xDD;
    uint32_t text_mix = 0;    // 0 ascii, 1 NUL-rich, 2 multi-byte-rich, 3 mixed
    uint32_t strict = 1;      // 1: no faults were generated (strict oracle)
};

struct Plan { Knobs k; std::vector<Op> ops; };

std::string plan_to_text(const Plan &p);                 // one line per knob/op
bool plan_from_text(const std::string &text, Plan &p, std::string &err);
const char *op_name(uint16_t kind);
int op_kind_by_name(const char *name);

// ------------------------------------------------------------------ element-type helpers
template <class T> struct ET;
template <> struct ET<char>     { enum { idx = 0, limit = 16 }; static const char *name() { return "char"; } };
template <> struct ET<wchar_t>  { enum { idx = 1, limit = 12 }; static const char *name() { return "wchar_t"; } };
template <> struct ET<char16_t> { enum { idx = 2, limit = 16 }; static const char *name() { return "char16_t"; } };
template <> struct ET<char32_t> { enum { idx = 3, limit = 12 }; static const char *name() { return "char32_t"; } };
static const unsigned SS_INOBJ = 256;     // in-object capacity of a string_stream

// ------------------------------------------------------------------ reference text helpers (harness side)
typedef std::u32string Scalars;
void enc_utf8(const Scalars &s, std::string &out);
void enc_utf16(const Scalars &s, std::u16string &out);
inline size_t units8(char32_t c) { return c < 0x80 ? 1 : c < 0x800 ? 2 : c < 0x10000 ? 3 : 4; }
inline size_t units16(char32_t c) { return c < 0x10000 ? 1 : 2; }
bool strict_utf8(const char *p, size_t n);          // strictly well-formed (RFC 3629)
bool strict_utf8_prefix_boundary(const std::string &s, size_t pos);   // pos is at a character boundary
bool decode_utf8_strict(const std::string &s, Scalars &out);
// unsafe = contains a 4-byte form above U+10FFFF or F5..FF lead (reaches a known ST_ASSERT of C03)
bool has_c03_hazard(const char *p, size_t n);

// ------------------------------------------------------------------ violations
struct Viol {
    bool set = false;
    std::string cls, site, msg;
};

// ------------------------------------------------------------------ models and pool
enum MState : uint8_t { M_DEFINITE = 0, M_ADOPT = 1, M_OLD_OR_EMPTY = 2, M_VALID_ONLY = 3 };
enum Role : uint8_t { ROLE_NONE = 0, ROLE_TARGET = 1, ROLE_RVALUE = 2, ROLE_CONST = 3, ROLE_NEW = 4 };

struct ObjBase {
    void *mem = nullptr;          // harness-owned storage the object was placement-constructed in
    uint64_t serial = 0;          // creation number within the run
    MState st = M_DEFINITE;
    const void *last_ptr = nullptr;
    bool ptr_known = false;
    Role role = ROLE_NONE;        // role in the operation being executed
    bool after_throw = false;     // the operation threw an allowed (non bad_alloc) exception
    bool moved_from = false;      // currently in a moved-from state (for probes)
    uint64_t peer = 0;            // serial of the object this one was moved into
    uint8_t peer_flags = 0;       // 1: the move was long -> short target
    uint64_t parent = 0;          // serial of the object this one was derived from (const operation result)
    bool survived_throw = false;  // was target / rvalue argument of an operation that threw (probe: used again later)
};

template <class T> struct BufObj : ObjBase {
    ST::buffer<T> *p() const { return static_cast<ST::buffer<T> *>(mem); }
    std::basic_string<T> model;
};
struct StrObj : ObjBase {
    ST::string *p() const { return static_cast<ST::string *>(mem); }
    std::string model;
};
struct SsObj : ObjBase {
    ST::string_stream *p() const { return static_cast<ST::string_stream *>(mem); }
    std::string model;
    size_t cap = 256;             // capacity model, used for probes only
};
struct VecObj : ObjBase {
    std::vector<ST::string> *p() const { return static_cast<std::vector<ST::string> *>(mem); }
    std::vector<std::string> model;
    std::vector<const void *> elem_ptr;
};

struct Stats {
    uint64_t ops = 0, steps = 0, checks = 0;
    uint64_t faults_alloc_planned = 0, faults_alloc_fired = 0;
    uint64_t faults_corrupt_planned = 0, faults_corrupt_thrown = 0;
    uint64_t exceptions[8] = {0};
    // "rare condition reached" probes (names in core.cpp)
    uint64_t probe[48] = {0};
};
enum Probe {
    PR_MOVE_ASSIGN_INTO_SHORT = 0, PR_READ_MOVED_FROM_AFTER_PEER_DESTROYED, PR_COPY_ASSIGN_LONG_LONG,
    PR_SELF_COPY_ASSIGN_LONG, PR_ALLOCATE_ON_MOVED_FROM, PR_SELF_MOVE_ASSIGN, PR_MOVE_LONG_TO_SHORT_DESTROY_TARGET_FIRST,
    PR_COPY_ASSIGN_ACROSS_LIMIT, PR_ALLOCATE_AFTER_CLEAR,
    PR_SS_GROW_TO_HEAP, PR_SS_MULTI_DOUBLING, PR_SS_APPEND_AFTER_TRUNC0_HEAP, PR_SS_MOVE_HEAP_TO_HEAP, PR_SS_APPEND_MOVED_FROM,
    PR_SS_MOVE_HEAP_TO_INOBJ, PR_SS_MOVE_INOBJ_TO_HEAP, PR_SS_TO_STRING_INVALID,
    PR_RESULT_EQUALS_SOURCE, PR_SELF_REFERENTIAL, PR_SOURCE_MUTATED_AFTER_DERIVE, PR_RESULT_DESTROYED_BEFORE_SOURCE,
    PR_THROW_WITH_HEAP_TARGET, PR_THROW_WITH_HEAP_RVALUE, PR_THROW_THEN_REUSED,
    PR_FAULT_ALLOCATE_AFTER_RELEASE, PR_FAULT_VECTOR_GROWTH, PR_FAULT_EXCEPTION_CTOR, PR_FAULT_TARGET_EMPTY_AFTER, PR_FAULT_TARGET_OLD_AFTER,
    PR_FAULT_STREAM_GROWTH, PR_FAULT_STD_FUNCTION, PR_SS_TOPPED_UP, PR_RETAINED_BY_STATIC, PR_STEP_ON_HELPER_THREAD, PR_RETRY_AFTER_BAD_ALLOC, PR_STEP_DURING_UNWINDING,
    PR__COUNT
};
const char *probe_name(int i);
// straight.cpp (compiled at -O2 without the step-clock instrumentation, see there): returns an empty string or what went wrong
std::string straight_line_run(int elem_type, uint32_t a, uint32_t b, uint32_t d);

enum ExcKind { EX_NONE = 0, EX_BAD_ALLOC, EX_UNICODE, EX_CODEC, EX_BAD_FORMAT, EX_OUT_OF_RANGE, EX_INVALID_ARG, EX_OTHER };
const char *exc_name(int e);

struct Source {               // one entry of the data-source table
    Scalars sc;               // well-formed scalar values
};

struct Ctx {
    const Plan *plan = nullptr;
    int prop = 5;
    std::vector<Source> sources;
    std::vector<BufObj<char> *> b8;
    std::vector<BufObj<wchar_t> *> bw;
    std::vector<BufObj<char16_t> *> b16;
    std::vector<BufObj<char32_t> *> b32;
    std::vector<StrObj *> strs;
    std::vector<SsObj *> sss;
    std::vector<VecObj *> vecs;
    void *fmt_slots[4] = {nullptr, nullptr, nullptr, nullptr};     // stored "..."_stfmt formatter objects (ops_str_b.cpp)
    uint64_t next_serial = 1;
    int step = 0;
    Viol viol;
    Stats *stats = nullptr;
    simrt::Hash sig;          // history signature
    bool nontrivial = false;
    // per-op scratch
    uint64_t budget_bytes = 0;
    bool skipped = false;     // the op could not be applied (no eligible operand)
    bool fired = false;       // the injected allocation fault fired during the last run_sut
    uint32_t op_allocs = 0;   // SUT allocations attempted by the last run_sut
    std::string site;         // op name + operand storage classes (filled by the op)
    bool fault_alloc_relevant = false;
    bool plain_copy = false;              // the operation copies / moves an ST::string as such: it never validates, so it never throws unicode_error
    const void *returned_ref = nullptr;   // the last library call yielded a reference (not a value): address of the object referred to
    // run-level flags used by non-trivial rules
    bool crossed_limit = false, touched_moved_from = false;
    bool run_probe[PR__COUNT] = {false};

    template <class T> std::vector<BufObj<T> *> &bufs();
};
template <> inline std::vector<BufObj<char> *> &Ctx::bufs<char>() { return b8; }
template <> inline std::vector<BufObj<wchar_t> *> &Ctx::bufs<wchar_t>() { return bw; }
template <> inline std::vector<BufObj<char16_t> *> &Ctx::bufs<char16_t>() { return b16; }
template <> inline std::vector<BufObj<char32_t> *> &Ctx::bufs<char32_t>() { return b32; }

inline void probe(Ctx &c, int p) { if (c.stats) c.stats->probe[p]++; c.run_probe[p] = true; }

// data-source access: exactly n units of the requested encoding, taken from source `src`
Scalars take_scalars(const Ctx &c, uint32_t src, uint32_t n, int enc /*8,16,32*/);
template <class T> std::basic_string<T> take_units(const Ctx &c, uint32_t src, uint32_t n);
void build_sources(Ctx &c);

// corrupt a unit sequence according to op.fc (C18 data fault); returns a description
template <class T> std::string corrupt_units(std::basic_string<T> &u, uint32_t fc);

// ------------------------------------------------------------------ storage classification & checks
enum Storage { ST_INOBJ = 0, ST_HEAP = 1, ST_BAD = 2 };
struct PtrClass { Storage st; simrt::BlockInfo bi; const char *why; };
PtrClass classify_ptr(const Ctx &c, const void *data, const void *obj, size_t objsize);

// Check every live object against its model (I1..I5). `heap_check`: also drain heap violations.
void check_all(Ctx &c);
// storage class letter of a value of n elements for type with in-object limit L: e(mpty) s(hort) l(imit-1) L(ong)
inline char cls_letter(size_t n, size_t limit) { return n == 0 ? 'e' : n + 1 < limit ? 's' : n < limit ? 'l' : n == limit ? 'L' : 'H'; }

void set_viol(Ctx &c, const char *cls, const std::string &msg);

// ------------------------------------------------------------------ running library code
void update_fatal_ctx(const Ctx &c);   // run.cpp: refresh the FATAL-line context with the current site
uint64_t op_budget(const Ctx &c);
// run f() as library code under the heap fault plan and the step watchdog; classify what it throws
// A history is a sequence of operations; nothing says one thread executes all of them.  Steps marked thr = 1, 2 are executed by one of two
// long-lived helper threads of the worker process: the step is handed over and waited for, so the hand-over is properly synchronised and the
// history stays a sequence - but whatever the library keeps per thread (thread_local scratch, memos keyed by an object's address) now sees
// objects that other threads have changed in between.  core.cpp: on_helper().
void on_helper(int k, const std::function<void()> &fn);
// The surroundings of a step: a scope guard that reports, cleans up or converts through the library does so from its destructor while the
// exception that ended the scope is still propagating.  Nothing the library does may depend on that (a commit-unless-unwinding test that asks
// "is any exception in flight" instead of "did this call fail" does).  The step's own exception is carried out and rethrown afterwards.
struct UnwindProbe { };
template <class F> inline void during_unwinding(F &f) {
    std::exception_ptr own;
    struct Guard { F &f; std::exception_ptr &own; ~Guard() { try { f(); } catch (...) { own = std::current_exception(); } } };
    try { Guard g{f, own}; throw UnwindProbe(); } catch (const UnwindProbe &) { }
    if (own) std::rethrow_exception(own);
}
template <class F> ExcKind run_sut(Ctx &c, const Op &op, F &&f) {
    c.returned_ref = nullptr;
    ExcKind ex = EX_NONE; uint64_t used = 0; bool fired = false; uint32_t allocs = 0;
    auto body = [&] {
        simrt::heap_op_begin((op.fault & F_ALLOC) ? op.fa : 0);      // (fault plan and counters are per thread)
        simrt::clock_arm(op_budget(c));
        {
            simrt::SutScope sut;
            try { if (op.uw) during_unwinding(f); else f(); }
            catch (const std::bad_alloc &) { ex = EX_BAD_ALLOC; }
            catch (const ST::unicode_error &) { ex = EX_UNICODE; }
            catch (const ST::codec_error &) { ex = EX_CODEC; }
            catch (const ST::bad_format &) { ex = EX_BAD_FORMAT; }
            catch (const std::out_of_range &) { ex = EX_OUT_OF_RANGE; }
            catch (const std::invalid_argument &) { ex = EX_INVALID_ARG; }
            catch (...) { ex = EX_OTHER; }
        }
        used = simrt::clock_disarm();
        simrt::heap_op_end();
        fired = simrt::heap_fault_fired(); allocs = simrt::heap_op_allocs();
    };
    if (op.uw) { if (c.stats) c.stats->probe[PR_STEP_DURING_UNWINDING]++; c.run_probe[PR_STEP_DURING_UNWINDING] = true; }
    if (op.thr) { on_helper(op.thr, body); if (c.stats) c.stats->probe[PR_STEP_ON_HELPER_THREAD]++; c.run_probe[PR_STEP_ON_HELPER_THREAD] = true; }
    else body();
    c.fired = fired;
    c.op_allocs = allocs;
    if (c.stats) { c.stats->steps += used; c.stats->exceptions[ex]++; }
    return ex;
}
// Build a pool object from what a const library call yields, the way `T x = call();` does.  When the call yields a *reference* instead
// of a value the address referred to is remembered; settle() reports it if it lies inside a live pool object ("every string or
// buffer it returns owns its own storage": a reference into the source is an alias, whatever a later copy of it would look like).
template <class T, class F> inline void emplace_fresh(Ctx &c, void *mem, F &&f) {
    if constexpr (std::is_reference_v<decltype(f())>) { auto &&r = f(); c.returned_ref = static_cast<const void *>(&r); new (mem) T(r); }
    else new (mem) T(f());
}
#define FRESH(T, ...) emplace_fresh<T>(c, mem, [&]() -> decltype(auto) { return (__VA_ARGS__); })
// run harness-side code that may legitimately touch library objects (temp construction, destruction of
// temporaries) without being subject to the fault plan
template <class F> void run_quiet(F &&f) { simrt::heap_op_begin(0); f(); }

// After the library call: generic treatment of exceptions for every object whose role was set.
// `allowed` is a bit mask of ExcKind values the op may legitimately throw (bad_alloc is added
// automatically when an allocation fault fired).  Returns true if the op completed normally.
bool settle(Ctx &c, const Op &op, ExcKind ex, unsigned allowed);
inline unsigned bit(ExcKind e) { return 1u << e; }

// mark roles
inline void as_target(ObjBase *o) { o->role = ROLE_TARGET; }
inline void as_rvalue(ObjBase *o) { o->role = ROLE_RVALUE; }
inline void as_const(ObjBase *o) { if (o->role == ROLE_NONE) o->role = ROLE_CONST; }

// object storage
void *obj_alloc(size_t n);
void obj_free(void *p);
bool obj_guard_intact(const void *p);

// pool management
template <class T> BufObj<T> *add_buf(Ctx &c, void *mem);
StrObj *add_str(Ctx &c, void *mem);
SsObj *add_ss(Ctx &c, void *mem);
VecObj *add_vec(Ctx &c, void *mem);
void destroy_fmt_slots(Ctx &c);     // ops_str_b.cpp
void destroy_all(Ctx &c);            // destroys every live object (library destructors run as SUT code)

// per-family executors; return false if the kind is not theirs
bool exec_buf(Ctx &c, const Op &op);
bool exec_ss(Ctx &c, const Op &op);
bool exec_str_a(Ctx &c, const Op &op);    // construction / mutation
bool exec_str_b(Ctx &c, const Op &op);    // const operations

// selection helpers
template <class V> typename V::value_type pick(V &v, uint32_t sel) { return v.empty() ? nullptr : v[sel % v.size()]; }
// strings above 64 KiB are not used as operands any more (keeps histories from requesting gigabytes through repeated
// self-concatenation or replace; the objects stay in the pool and are checked and destroyed like all others)
static const size_t MAX_OPERAND_BYTES = 65536;
inline StrObj *pick(std::vector<StrObj *> &v, uint32_t sel) {
    for (size_t k = 0, n = v.size(); k < n; k++) { StrObj *o = v[(sel + k) % n]; if (o->model.size() <= MAX_OPERAND_BYTES || o->st != M_DEFINITE) return o->model.size() <= MAX_OPERAND_BYTES ? o : nullptr; }
    return nullptr;
}
StrObj *pick_str_wf(Ctx &c, uint32_t sel);
StrObj *pick_str_nohazard(Ctx &c, uint32_t sel);          // a string whose model is strictly well-formed (or nullptr)
BufObj<char> *pick_b8_text(Ctx &c, uint32_t sel);   // a char buffer without C03 hazard bytes

// operand codes of role K: < 1000 literal; 1000 size; 1001 size-1; 1002 size+1; 1003 size/2; 1004 ST_AUTO_SIZE; 1005 2*size+2
size_t resolve_code(uint32_t code, size_t size);
long long int_value(uint32_t i);        // table of interesting integers (never the most negative value of a type)
double dbl_value(uint32_t i);           // table of doubles with |x| < 1e15 (plus inf/nan)
std::string latin1_ref(const std::string &bytes);   // reference Latin-1 -> UTF-8
void remove_obj(Ctx &c, ObjBase *o);   // unlink from pool vectors (does not destroy)
void note_moved(Ctx &c, ObjBase *src, ObjBase *dst, bool long_to_short);
void note_destroying(Ctx &c, ObjBase *o); // call before an object is destroyed (probes)
inline bool is_live_str(const Ctx &c, const StrObj *o) { for (auto *q : c.strs) if (q == o) return true; return false; }
void note_mutating(Ctx &c, ObjBase *o);   // call before an object is given a new value (probes)
void str_make_room(Ctx &c, const ObjBase *keep = nullptr, const ObjBase *keep2 = nullptr);

} // namespace A
