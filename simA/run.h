#pragma once
#include "core.h"
#include <set>

namespace A {

struct RunResult {
    Viol viol;
    int step = -1;
    uint64_t sig = 0;
    bool nontrivial = false;
    uint64_t ops = 0, steps = 0, fault_fired = 0;
    std::vector<uint32_t> allocs;      // per step: allocations attempted by the library call (filled when want_allocs)
    std::vector<uint8_t> skipped;
};

RunResult run_plan(const Plan &plan, Stats *total, bool want_allocs = false);
Plan gen_plan(int prop, uint64_t runseed);
void set_fatal_ctx(const Ctx &c, const Op &op);
extern std::set<uint64_t> *g_sites;   // when set: hashes of every distinct site (operation kind + operand storage classes + outcome class) executed
extern uint64_t g_run_index;     // index of the run being executed (goes into FATAL lines)

// C19 fault enumeration (enum19.cpp)
struct EnumTotals { uint64_t cells = 0, alloc_points = 0, executions = 0, max_k = 0; };
typedef bool (*EnumVisit)(const Plan &plan, const char *cell, unsigned k, unsigned i, void *user);   // return false to stop
void enum_c19(unsigned part, unsigned parts, uint64_t from, EnumVisit visit, void *user, EnumTotals &tot);

} // namespace A
