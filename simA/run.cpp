// Engine A: plan interpreter and seeded plan generator.
#include "run.h"
#include "textarg.h"
#include <algorithm>
#include <set>

namespace A {

uint64_t g_run_index = 0;
std::set<uint64_t> *g_sites = nullptr;

void set_fatal_ctx(const Ctx &c, const Op &op) {
    simrt::fatal_context("prop=C%02d i=%llu runseed=%llu step=%d site=%s", c.prop, (unsigned long long)g_run_index, (unsigned long long)c.plan->k.seed, c.step,
                         c.site.empty() ? op_name(op.kind) : c.site.c_str());
}

void update_fatal_ctx(const Ctx &c) {
    simrt::fatal_context("prop=C%02d i=%llu runseed=%llu step=%d site=%s", c.prop, (unsigned long long)g_run_index, (unsigned long long)c.plan->k.seed, c.step, c.site.c_str());
}

static bool exec_op(Ctx &c, const Op &op) {
    return exec_buf(c, op) || exec_ss(c, op) || exec_str_a(c, op) || exec_str_b(c, op);
}

static bool nontrivial_rule(const Ctx &c, const Stats &rs) {
    switch (c.prop) {
    case P_C05: return c.crossed_limit || c.touched_moved_from;
    case P_C16: return c.crossed_limit || c.touched_moved_from;
    case P_C04: return (c.run_probe[PR_RESULT_EQUALS_SOURCE] || c.run_probe[PR_SELF_REFERENTIAL]) &&
                       (c.run_probe[PR_SOURCE_MUTATED_AFTER_DERIVE] || c.run_probe[PR_RESULT_DESTROYED_BEFORE_SOURCE]);
    case P_C18: return rs.faults_corrupt_thrown > 0 && (c.run_probe[PR_THROW_WITH_HEAP_TARGET] || c.run_probe[PR_THROW_WITH_HEAP_RVALUE]);
    case P_C19: return rs.faults_alloc_fired > 0;
    default: return false;
    }
}

RunResult run_plan(const Plan &plan, Stats *total, bool want_allocs) {
    RunResult rr;
    Stats rs;
    Ctx c; c.plan = &plan; c.prop = plan.k.prop; c.stats = &rs;
    build_sources(c);
    simrt::heap_begin_run((simrt::HeapPolicy)(plan.k.heap_policy & 1), (uint8_t)plan.k.fill_fresh, (uint8_t)plan.k.fill_freed);
    for (size_t i = 0; i < plan.ops.size(); i++) {
        const Op &op = plan.ops[i];
        c.step = (int)i; c.skipped = false; c.budget_bytes = 0; c.site = op_name(op.kind); c.op_allocs = 0;
        set_fatal_ctx(c, op);
        if (!exec_op(c, op)) { set_viol(c, "internal", std::string("no executor for op ") + op_name(op.kind)); break; }
        if (!c.skipped) { rs.ops++; if (g_sites) { simrt::Hash sh; sh.str(c.site.c_str()); g_sites->insert(sh.h); } }
        if (want_allocs) { rr.allocs.push_back(c.op_allocs); rr.skipped.push_back(c.skipped ? 1 : 0); }
        set_fatal_ctx(c, op);
        const bool fault_fired = (op.fault & F_ALLOC) && c.fired;
        check_all(c);
        if (c.viol.set) { rr.step = (int)i; break; }
        // what a caller does after std::bad_alloc: the same call again.  Half of the operations whose allocation fault fired are repeated at once
        // without it, on the same objects ("can still be read, assigned to": and what comes out is judged like any other step)
        if (fault_fired && !c.skipped && ((op.fa + i) & 1) == 0) {
            Op again = op; again.fault &= (uint8_t)~F_ALLOC; again.fa = 0;
            c.skipped = false; c.budget_bytes = 0; c.site = op_name(again.kind); c.op_allocs = 0;
            set_fatal_ctx(c, again);
            if (!exec_op(c, again)) { set_viol(c, "internal", std::string("no executor for op ") + op_name(again.kind)); break; }
            if (!c.skipped) { rs.ops++; probe(c, PR_RETRY_AFTER_BAD_ALLOC); }
            set_fatal_ctx(c, again);
            check_all(c);
            if (c.viol.set) { rr.step = (int)i; break; }
        }
    }
    // tear down: every object is destroyed by library code, then the ledger must be empty
    c.site = c.viol.set ? c.viol.site : "teardown";
    simrt::fatal_context("prop=C%02d i=%llu runseed=%llu step=%d site=%s", c.prop, (unsigned long long)g_run_index, (unsigned long long)plan.k.seed, (int)plan.ops.size(), "teardown");
    Viol saved = c.viol;
    destroy_all(c);
    if (!saved.set) {
        char d[200];
        simrt::HeapViolation hv = simrt::heap_take_violation(d, sizeof d);
        if (hv != simrt::HV_NONE) {
            c.site = "teardown";
            set_viol(c, hv == simrt::HV_DOUBLE_FREE ? "double_free" : hv == simrt::HV_INVALID_FREE ? "invalid_free" : hv == simrt::HV_OVERRUN ? "out_of_bounds_write" : "form_mismatch", d);
            rr.step = (int)plan.ops.size();
        }
    }
    size_t live = simrt::heap_end_run();
    (void)simrt::heap_take_violation(nullptr, 0);
    // Storage that an object with static or thread storage duration still refers to (a per-thread scratch stream, a one-slot cache) is retained,
    // not leaked: it goes when the thread or the process ends.  It is a leak all the same if it *grows* every time the same history is
    // repeated - nothing bounded behaves like that.  Costs nothing on a tree that retains nothing.
    static bool in_repeat = false;
    const size_t retained = simrt::heap_last_retained_blocks();
    if (retained && !in_repeat) {
        probe(c, PR_RETAINED_BY_STATIC);
        if (!c.viol.set && !saved.set && !live) {
            in_repeat = true;
            size_t b[9]; b[0] = simrt::heap_sut_bytes_live(); bool clean = true;
            for (int r = 1; r <= 8 && clean; r++) { RunResult x = run_plan(plan, nullptr, false); b[r] = simrt::heap_sut_bytes_live(); clean = !x.viol.set; }
            in_repeat = false;
            simrt::fatal_context("prop=C%02d i=%llu runseed=%llu step=%d site=%s", c.prop, (unsigned long long)g_run_index, (unsigned long long)plan.k.seed, (int)plan.ops.size(), "teardown");
            if (clean && b[8] > b[4] && b[4] > b[0]) {
                c.site = "teardown";
                set_viol(c, "leak", "storage held by a static or thread-local object grows every time the same history is repeated (" + std::to_string(b[0]) + " -> " + std::to_string(b[4]) + " -> " + std::to_string(b[8]) + " bytes after 1, 5, 9 executions)");
                rr.step = (int)plan.ops.size();
            }
        }
    }
    if (!c.viol.set && live) {
        c.site = "teardown";
        set_viol(c, "leak", std::to_string(live) + " block(s) allocated by library code are still live after every object was destroyed");
        rr.step = (int)plan.ops.size();
    }
    rr.viol = saved.set ? saved : c.viol;
    rr.sig = c.sig.h;
    rr.nontrivial = nontrivial_rule(c, rs);
    rr.ops = rs.ops; rr.steps = rs.steps;
    rr.fault_fired = rs.faults_alloc_fired + rs.faults_corrupt_thrown;
    if (total) {
        total->ops += rs.ops; total->steps += rs.steps; total->checks += rs.checks;
        total->faults_alloc_planned += rs.faults_alloc_planned; total->faults_alloc_fired += rs.faults_alloc_fired;
        total->faults_corrupt_planned += rs.faults_corrupt_planned; total->faults_corrupt_thrown += rs.faults_corrupt_thrown;
        for (int i = 0; i < 8; i++) total->exceptions[i] += rs.exceptions[i];
        for (int i = 0; i < PR__COUNT; i++) total->probe[i] += rs.probe[i];
    }
    return rr;
}

// ------------------------------------------------------------------ generator
static uint32_t draw_len(Rng &r, unsigned limit, unsigned bias) {
    // rarely: a really large value (a page, 64 KiB): thresholds that only big data crosses
    if (r.below(400) == 0) { static const uint32_t BIG[] = {4095, 4096, 4097, 8200, 65535, 65536, 65537}; return BIG[r.below(7)]; }
    // bias 0 uniform over classes, 1 limit-heavy, 2 long-heavy
    static const int W[3][13] = {{2, 2, 1, 2, 3, 3, 3, 2, 1, 2, 2, 1, 1}, {1, 1, 1, 3, 6, 6, 5, 2, 1, 1, 1, 1, 1}, {1, 1, 0, 1, 2, 3, 3, 3, 2, 4, 4, 3, 3}};
    int tot = 0; for (int w : W[bias % 3]) tot += w;
    int x = (int)r.below((uint32_t)tot), k = 0;
    while (x >= W[bias % 3][k]) { x -= W[bias % 3][k]; ++k; }
    switch (k) {
    case 0: return 0;
    case 1: return 1;
    case 2: return 2 + r.below(3);
    case 3: return limit - 2;
    case 4: return limit - 1;
    case 5: return limit;
    case 6: return limit + 1;
    case 7: return 2 * limit;
    case 8: return 2 * limit + 1 + r.below(8);
    case 9: return 30 + r.below(40);
    case 10: return 90 + r.below(40);
    case 11: return 550 + r.below(100);
    default: return 250 + r.below(13);      // around 256: the in-object capacity of the string_stream that formatting and conversions go through
    }
}
static uint32_t draw_stream_len(Rng &r) {
    if (r.below(300) == 0) { static const uint32_t BIG[] = {8191, 8192, 8193, 16385, 65535, 65536, 65537, 131073}; return BIG[r.below(8)]; }
    switch (r.below(14)) {
    case 0: return 0; case 1: return 1; case 2: return 2 + r.below(14); case 3: return 100 + r.below(60);
    case 4: return 255; case 5: return 256; case 6: return 257; case 7: return 300; case 8: return 511 + r.below(3);
    case 9: return 700; case 10: return 1023 + r.below(3); case 11: return 3000; case 12: return 16 + r.below(48);
    default: return 4090 + r.below(10);
    }
}
static uint32_t draw_code(Rng &r) {
    switch (r.below(10)) {
    case 0: return 0; case 1: return 1; case 2: return 2 + r.below(20); case 3: return 1000; case 4: return 1001;
    case 5: return 1002; case 6: return 1003; case 7: return 1004; case 8: return 1005; default: return r.below(700);
    }
}
static uint32_t draw_cp(Rng &r) {
    switch (r.below(6)) {
    case 0: case 1: return 0x20 + r.below(0x5F);
    case 2: return 0x80 + r.below(0x780);
    case 3: return 0x800 + r.below(0xD000);
    case 4: return 0x10000 + r.below(0x100000);
    default: { static const uint32_t E[] = {0, 0x7F, 0x80, 0x7FF, 0x800, 0xFFFF, 0x10000, 0x10FFFF, 0xE9, 0xFF}; return E[r.below(10)]; }
    }
}

static const unsigned LIMITS[4] = {16, 12, 16, 12};

static void fill_operands(Rng &r, Op &o, unsigned bias, bool streams) {
    const char *roles = META[o.kind].roles;
    uint32_t *slot[4] = {&o.a, &o.b, &o.c, &o.d};
    unsigned limit = LIMITS[o.t & 3];
    Family fam = META[o.kind].fam;
    if (fam >= SC) limit = 16;
    for (int i = 0; i < 4; i++) {
        switch (roles[i]) {
        case 'B': case 'C': case 'S': case 'M': case 'V': *slot[i] = r.below(64); break;
        case 'X': *slot[i] = r.below(1 << 16); break;
        case 'N': *slot[i] = (streams || (fam >= MC && fam <= MD)) ? draw_stream_len(r) : draw_len(r, limit, bias); break;
        case 'K': *slot[i] = draw_code(r); break;
        case 'c': *slot[i] = r.below(95); break;
        case 'u': *slot[i] = draw_cp(r); break;
        case 'f': *slot[i] = r.below(1 << 18); break;
        case 'm': *slot[i] = r.below(3); break;
        case 'i': *slot[i] = r.below(64); break;
        default: *slot[i] = 0; break;
        }
    }
    // text inputs of string ops: their length class follows the widths involved
    if (o.kind == S_CONSTRUCT || o.kind == S_FROM || o.kind == S_ASSIGN || o.kind == S_SET || o.kind == S_APPEND || o.kind == S_PLUS || o.kind == S_LITERAL) {
        o.c = draw_len(r, (r.below(3) == 0) ? 12 : 16, bias);
        if (r.below(5) == 0) o.c = r.below(7);      // short pieces keep results around the limit
    }
    if (o.kind == SS_APPEND_CHAR) o.c = r.below(3) ? r.below(40) : draw_stream_len(r);
    if ((o.kind == SS_APPEND_CHAR || o.kind == SS_SHL_CHAR) && r.below(5) == 0) o.b = 95 + r.below(161);      // a fifth: bytes >= 0x80, NUL
}

// which op kinds can carry a data-corruption fault (they take text / encoded input)
static bool corruptible(uint16_t k) {
    switch (k) {
    case S_CONSTRUCT: case S_FROM: case S_ASSIGN: case S_SET: case S_APPEND: case S_APPEND_CH: case S_PLUS: case S_PLUS_CH:
    case S_REPLACE: case S_SPLIT: case S_FORMAT: case S_STFMT: case S_ISTREAM: case S_DECODE: case SS_SHL_TEXT: case SS_APPEND: case B_NEW_PTRLEN: case S_PATH: case S_SINKS:
        return true;
    default: return false;
    }
}
static bool alloc_faultable(uint16_t) { return true; }      // (stream extraction / insertion place their faults themselves: ops_str_a.cpp, ops_str_b.cpp)

struct FamW { int w[FAM__COUNT]; };
//                        BC BA BR BD  MC MA MT MM MS MD  SC SM SS SD SX VV BV
static const FamW W_C05 = {{6, 12, 4, 4, 0, 0, 0, 0, 0, 0, 0, 0, 0, 0, 0, 0, 0}};
static const FamW W_C16 = {{0, 0, 0, 0, 2, 12, 4, 5, 3, 2, 1, 0, 0, 0, 0, 0, 0}};
static const FamW W_C04 = {{2, 1, 0, 1, 1, 1, 0, 0, 0, 0, 6, 8, 4, 12, 4, 2, 1}};
static const FamW W_C18 = {{3, 1, 0, 1, 1, 3, 1, 1, 1, 0, 6, 9, 2, 8, 2, 1, 3}};
static const FamW W_C19 = {{4, 6, 1, 2, 2, 6, 1, 2, 2, 1, 5, 6, 2, 9, 2, 2, 3}};

Plan gen_plan(int prop, uint64_t runseed) {
    Plan p;
    Rng r; r.seed(runseed);
    p.k.prop = prop; p.k.seed = runseed; p.k.data_seed = r.next();
    p.k.pool_cap = 2 + r.below(11);
    p.k.heap_policy = r.below(2);
    static const uint8_t FILLS[] = {0xA5, 0xCD, 0xFF, 0x01, 0x7F, 0xEE, 0x5A, 0x80};
    p.k.fill_fresh = FILLS[r.below(8)]; p.k.fill_freed = FILLS[r.below(8)];
    if (p.k.fill_freed == p.k.fill_fresh) p.k.fill_freed ^= 0x33;
    p.k.text_mix = r.below(4);
    unsigned bias = r.below(3);
    unsigned len = 5 + r.below(76);
    const FamW &base = prop == P_C05 ? W_C05 : prop == P_C16 ? W_C16 : prop == P_C04 ? W_C04 : prop == P_C18 ? W_C18 : W_C19;
    // swarm: per-run family weights (some families switched off), never all mutators off
    int w[FAM__COUNT]; int tot = 0;
    for (int f = 0; f < FAM__COUNT; f++) {
        w[f] = base.w[f];
        if (w[f] && r.below(5) == 0) w[f] = 0;
        else if (w[f]) w[f] = std::max(1, (int)(w[f] * (1 + r.below(3)) / 2));
    }
    // construction families stay on
    if (prop == P_C05) { w[BC] = std::max(w[BC], 3); w[BA] = std::max(w[BA], 4); }
    if (prop == P_C16) { w[MC] = std::max(w[MC], 2); w[MA] = std::max(w[MA], 6); }
    if (prop == P_C04 || prop == P_C18 || prop == P_C19) { w[SC] = std::max(w[SC], 4); w[SM] = std::max(w[SM], 3); w[SX] = std::max(w[SX], 1); }
    if (prop == P_C19) { w[BC] = std::max(w[BC], 2); w[MC] = std::max(w[MC], 1); }
    for (int f = 0; f < FAM__COUNT; f++) tot += w[f];
    // kinds per family
    std::vector<uint16_t> kinds[FAM__COUNT];
    for (int k = 0; k < KIND__COUNT; k++) kinds[META[k].fam].push_back((uint16_t)k);
    bool streams_only = prop == P_C16;
    unsigned corrupt_rate = prop == P_C18 ? 3 + r.below(6) : (prop == P_C19 && r.below(3) == 0) ? 4 + r.below(8) : 0;          // one in N eligible ops
    unsigned alloc_rate = prop == P_C19 ? 3 + r.below(20) : 0;
    uint8_t type_mask = (uint8_t)(1 + r.below(15));                       // element types enabled in this run
    // prologue: a few objects to work with
    auto push_kind = [&](uint16_t kind) {
        Op o; o.kind = kind;
        do { o.t = (uint8_t)r.below(4); } while (!((type_mask >> o.t) & 1));
        fill_operands(r, o, bias, streams_only);
        p.ops.push_back(o);
    };
    if (prop == P_C05) { for (int i = 0; i < 3; i++) push_kind(B_NEW_PTRLEN); }
    else if (prop == P_C16) { push_kind(SS_NEW); push_kind(SS_NEW); push_kind(S_CONSTRUCT); p.ops.back().d = 1; }
    else { push_kind(S_CONSTRUCT); push_kind(S_CONSTRUCT); push_kind(S_FILL); push_kind(B_NEW_PTRLEN); push_kind(SS_NEW); }
    while (p.ops.size() < len + 3) {
        int x = (int)r.below((uint32_t)tot), f = 0;
        while (x >= w[f]) { x -= w[f]; ++f; }
        const auto &ks = kinds[f];
        push_kind(ks[r.below((uint32_t)ks.size())]);
        Op &o = p.ops.back();
        if (o.kind == B_HUGE && r.below(4)) { o.kind = B_ALLOCATE; fill_operands(r, o, bias, streams_only); }      // (one in four stays: sizes beyond 32 bits are a rare class)
        if (prop == P_C16 && (o.kind == S_FROM || o.kind == S_FROM_NUM || o.kind == S_LITERAL || o.kind == S_NEW_DEFAULT)) o.kind = S_FILL, fill_operands(r, o, bias, false);
        if (prop == P_C16 && o.kind == S_CONSTRUCT) o.d = 1;      // C16 histories only need plain (ptr,len) strings as arguments of stream << string
        if (corrupt_rate && corruptible(o.kind) && r.below(corrupt_rate) == 0) { o.fault |= F_CORRUPT; o.fc = r.below(1 << 24); }
        if (alloc_rate && alloc_faultable(o.kind) && r.below(alloc_rate) == 0) {
            o.fault |= F_ALLOC;
            o.fa = 1 + (r.below(3) ? 0 : r.below(3) ? r.below(3) : r.below(12));
        }
        if (prop == P_C04 && (o.kind == S_CONSTRUCT || o.kind == S_FROM || o.kind == S_SET) && r.below(8) == 0) {
            // malformed text in substitute mode (never throws): the result is longer or shorter than the input by amounts only the library computes
            o.fault |= F_CORRUPT; o.fc = r.below(1 << 24); o.d = (o.d & ~(3u << 8)) | (1u << 8);
        }
        if (META[o.kind].fam == MA && o.kind != SS_APPEND_CHAR && r.below(5) == 0) {
            // a pair: top the same stream up to within 0..23 bytes of its capacity first, so the append that follows straddles a boundary
            Op f; f.kind = SS_APPEND_CHAR; f.t = 0; f.a = o.a; f.b = r.below(95); f.c = 0; f.d = 1 + r.below(24);
            Op t = o;
            p.ops.back() = f; p.ops.push_back(t);
            continue;
        }
        if (corrupt_rate && (o.kind == S_CONSTRUCT || o.kind == S_ASSIGN || o.kind == S_SET) && r.below(12) == 0) {
            // a pair: build a char buffer from corrupted text of a chosen size class, then hand exactly that buffer to the string operation
            // (as lvalue or rvalue) - otherwise "rvalue buffer + invalid + heap-sized" needs three independent draws to line up
            Op b; b.kind = B_NEW_PTRLEN; b.t = 0; b.a = r.below(1 << 16); b.b = draw_len(r, 16, bias); b.fault = F_CORRUPT; b.fc = r.below(1 << 24);
            Op t = o;      // (copy: the push_back below invalidates the reference)
            t.fault &= ~F_CORRUPT; t.d = (r.below(3) ? (uint32_t)SK_CBUF_R : (uint32_t)SK_CBUF_L) | (r.below(3) << 8) | (1u << 16);
            p.ops.back() = b; p.ops.push_back(t);
        }
    }
    p.k.strict = (corrupt_rate || alloc_rate) ? 0 : 1;
    // who executes each step (drawn from a generator of its own: the plans of earlier versions are unchanged): in a fifth of the histories a third
    // of the steps are handed to one of two long-lived helper threads
    // the surroundings of a step (likewise a generator of its own): in one history in six a quarter of the steps run during stack unwinding
    { Rng ur; ur.seed(simrt::mix(runseed, 0x756e77, 1)); if (ur.below(6) == 0) for (Op &o : p.ops) if (ur.below(4) == 0) o.uw = 1; }
    { Rng tr; tr.seed(simrt::mix(runseed, 0x746872, 1)); if (tr.below(5) == 0) for (Op &o : p.ops) if (tr.below(3) == 0) o.thr = (uint8_t)(1 + tr.below(2)); }
    return p;
}

} // namespace A
