// Engine A: string_stream operations (C16, also C18/C19 histories).
#include "core.h"
#include <limits>

#include <filesystem>

namespace A {

static void note_sig(Ctx &c, const Op &op, const char *extra) {
    c.site = std::string(op_name(op.kind)) + "(" + extra + ")";
    c.sig.u8((uint8_t)op.kind); c.sig.str(extra);
}
static const char *mode(const SsObj *o) { return o->cap > SS_INOBJ ? "heap" : "inobj"; }

static void make_room(Ctx &c, const ObjBase *keep = nullptr) {
    auto &v = c.sss;
    while (v.size() >= c.plan->k.pool_cap && v.size() > 1) {
        size_t i = (size_t)(c.step * 7 + 3) % v.size();
        if (v[i] == keep) i = (i + 1) % v.size();
        SsObj *o = v[i];
        note_destroying(c, o);
        { simrt::SutScope s; o->p()->~string_stream(); }
        obj_free(o->mem); remove_obj(c, o); delete o;
    }
}

// model of growth, used for probes and signatures only
static void grow_model(Ctx &c, SsObj *o, size_t added) {
    if (o->model.size() + added > o->cap) {
        size_t before = o->cap, n = o->cap, doublings = 0;
        do { n *= 2; ++doublings; } while (o->model.size() + added > n);
        o->cap = n;
        if (before <= SS_INOBJ) probe(c, PR_SS_GROW_TO_HEAP);
        if (doublings > 1) probe(c, PR_SS_MULTI_DOUBLING);
        c.crossed_limit = true;
    }
}

template <class T> static std::basic_string<T> cut_at_nul(const std::basic_string<T> &s) {
    size_t p = s.find(T(0));
    return p == std::basic_string<T>::npos ? s : s.substr(0, p);
}

// The most negative value of a type goes through std::abs() in the library (undefined behaviour, C12's business, section 3.3): the sanitizer
// build stays away from it, the plain builds insert it like any other value - what the stream then holds is C16's and C19's business all the same.
template <class I> static I clamp_int(long long v) {
    I r = (I)v;
#ifdef SIMRT_ASAN
    if (std::numeric_limits<I>::is_signed && r == std::numeric_limits<I>::min()) r = (I)(r + 1);
#endif
    return r;
}

// append `bytes` expected; returns nothing. Common tail for every append-like op.
template <class F>
static void do_append(Ctx &c, const Op &op, SsObj *o, const std::string &expect, bool may_throw_unicode, bool adopt_on_success, F &&call) {
    c.budget_bytes += o->model.size() + expect.size();
    if (o->moved_from) { probe(c, PR_SS_APPEND_MOVED_FROM); c.touched_moved_from = true; }
    if (o->model.empty() && o->cap > SS_INOBJ && !expect.empty()) probe(c, PR_SS_APPEND_AFTER_TRUNC0_HEAP);
    if ((op.fault & F_ALLOC) && o->model.size() + expect.size() > o->cap) probe(c, PR_FAULT_STREAM_GROWTH);
    as_target(o);
    ExcKind ex = run_sut(c, op, call);
    if (settle(c, op, ex, may_throw_unicode ? bit(EX_UNICODE) : 0)) {
        if (adopt_on_success) { o->st = M_ADOPT; o->cap = std::max<size_t>(o->cap, 8192); }
        else { grow_model(c, o, expect.size()); o->model += expect; }
        o->moved_from = false;
    } else if (ex == EX_BAD_ALLOC && o->st == M_OLD_OR_EMPTY) {
        // a stream whose growth failed must keep its content (growth allocates before it releases)
        o->st = M_DEFINITE;
    }
}

bool exec_ss(Ctx &c, const Op &op) {
    Family fam = META[op.kind].fam;
    if (fam < MC || fam > MD) return false;
    auto &v = c.sss;
    switch (op.kind) {
    case SS_NEW: {
        make_room(c); note_sig(c, op, "");
        void *mem = obj_alloc(sizeof(ST::string_stream));
        ExcKind ex = run_sut(c, op, [&] { new (mem) ST::string_stream(); });
        if (settle(c, op, ex, 0)) { auto *o = add_ss(c, mem); o->role = ROLE_NEW; } else obj_free(mem);
        return true;
    }
    case SS_NEW_MOVE: {
        SsObj *src = pick(v, op.a);
        if (!src) { c.skipped = true; return true; }
        make_room(c, src);
        char e[48]; std::snprintf(e, sizeof e, "src=%s%s", mode(src), src->moved_from ? ",moved_from" : ""); note_sig(c, op, e);
        c.budget_bytes = src->model.size();
        as_rvalue(src);
        void *mem = obj_alloc(sizeof(ST::string_stream));
        ExcKind ex = run_sut(c, op, [&] { new (mem) ST::string_stream(std::move(*src->p())); });
        if (settle(c, op, ex, 0)) {
            auto *o = add_ss(c, mem); o->model = src->model; o->cap = src->cap; o->role = ROLE_NEW;
            note_moved(c, src, o, false);
            src->st = M_DEFINITE; src->model.clear(); src->cap = SS_INOBJ;      // "a valid empty stream"
        } else obj_free(mem);
        return true;
    }
    case SS_MOVE_ASSIGN: {
        SsObj *dst = pick(v, op.a), *src = pick(v, op.b);
        if (!dst || dst == src) { c.skipped = true; return true; }     // self-move of a stream is not promised
        char e[64]; std::snprintf(e, sizeof e, "dst=%s,src=%s", mode(dst), mode(src)); note_sig(c, op, e);
        c.budget_bytes = src->model.size() + dst->model.size();
        bool dh = dst->cap > SS_INOBJ, sh = src->cap > SS_INOBJ;
        if (dh && sh) probe(c, PR_SS_MOVE_HEAP_TO_HEAP);
        if (sh && !dh) probe(c, PR_SS_MOVE_HEAP_TO_INOBJ);
        if (!sh && dh) probe(c, PR_SS_MOVE_INOBJ_TO_HEAP);
        as_target(dst); as_rvalue(src);
        ExcKind ex = run_sut(c, op, [&] { *dst->p() = std::move(*src->p()); });
        if (settle(c, op, ex, 0)) {
            dst->model = src->model; dst->cap = src->cap;
            note_moved(c, src, dst, false);
            src->st = M_DEFINITE; src->model.clear(); src->cap = SS_INOBJ;
        }
        return true;
    }
    case SS_APPEND: {
        SsObj *o = pick(v, op.a);
        if (!o) { c.skipped = true; return true; }
        std::string data = take_units<char>(c, op.b, op.c);
        if (op.fault & F_CORRUPT) corrupt_units<char>(data, op.fc);
        const char *src = nullptr;
#ifndef SIMRT_ASAN
        // adjacency form: the text to append starts exactly one past the end of the stream's storage (the guard bytes the simulator keeps behind
        // the object and behind every heap block are as good a text as any). A pointer comparison that treats one-past-the-end as "inside" shows here.
        if ((op.d & 15) == 15) {
            simrt::BlockInfo bi; const char *raw = o->p()->raw_buffer();
            if (simrt::heap_lookup(raw, &bi)) src = raw + bi.size;
            else if (raw >= (const char *)o->mem && raw < (const char *)o->mem + sizeof(ST::string_stream)) src = (const char *)o->mem + sizeof(ST::string_stream);
            if (src) data.assign(src, 1 + op.c % 32);
        }
#endif
        char e[64]; std::snprintf(e, sizeof e, "%s,size=%zu,add=%zu%s", mode(o), o->model.size() / 64, data.size() / 64, src ? ",adjacent" : ""); note_sig(c, op, e);
        const size_t len = data.size();
        do_append(c, op, o, data, false, false, [&] { o->p()->append(src ? src : data.data(), len); });
        return true;
    }
    case SS_APPEND_AUTO: {
        SsObj *o = pick(v, op.a);
        if (!o) { c.skipped = true; return true; }
        std::string data = take_units<char>(c, op.b, op.c);
        bool null = (op.d % 8) == 7;
        std::string expect = null ? std::string() : cut_at_nul(data);
        note_sig(c, op, null ? "null" : mode(o));
        do_append(c, op, o, expect, false, false, [&] { o->p()->append(null ? nullptr : data.c_str()); });
        return true;
    }
    case SS_APPEND_CHAR: {
        SsObj *o = pick(v, op.a);
        if (!o) { c.skipped = true; return true; }
        char ch = op.b < 95 ? (char)(0x20 + op.b) : op.b == 255 ? '\0' : (char)(0x80 + (op.b - 95) % 128);      // (a byte is a byte: high bytes and NUL too)
        size_t n = op.c;
        // top-up form: fill the stream until exactly op.d - 1 bytes of its (modelled) capacity are free, so that whatever is
        // appended next - a sign, the digits of a number, one character of a text - straddles the capacity boundary
        if (op.d) { size_t room = o->cap > o->model.size() ? o->cap - o->model.size() : 0, keep = op.d - 1; n = room >= keep ? room - keep : 0; probe(c, PR_SS_TOPPED_UP); }
        char e[64]; std::snprintf(e, sizeof e, "%s,n=%zu%s", mode(o), n / 64, op.d ? ",topup" : ""); note_sig(c, op, e);
        do_append(c, op, o, std::string(n, ch), false, false, [&] { if (n == 1 && (op.b & 1)) o->p()->append_char(ch); else o->p()->append_char(ch, n); });
        return true;
    }
    case SS_SHL_CHAR: {
        SsObj *o = pick(v, op.a);
        if (!o) { c.skipped = true; return true; }
        char ch = op.b < 95 ? (char)(0x20 + op.b) : op.b == 255 ? '\0' : (char)(0x80 + (op.b - 95) % 128);
        note_sig(c, op, mode(o));
        do_append(c, op, o, std::string(1, ch), false, false, [&] { *o->p() << ch; });
        return true;
    }
    case SS_SHL_STR: {
        SsObj *o = pick(v, op.a); StrObj *s = pick(c.strs, op.b);
        if (!o || !s) { c.skipped = true; return true; }
        note_sig(c, op, mode(o));
        as_const(s);
        std::string expect = s->model;
        do_append(c, op, o, expect, false, false, [&] { *o->p() << *s->p(); });
        return true;
    }
    case SS_SHL_INT: {
        SsObj *o = pick(v, op.a);
        if (!o) { c.skipped = true; return true; }
        long long val = int_value(op.b);
        unsigned ty = op.c % 6;
        char e[32]; std::snprintf(e, sizeof e, "%s,ty=%u", mode(o), ty); note_sig(c, op, e);
        std::string expect;
        switch (ty) {
        case 0: expect = std::to_string(clamp_int<int>(val)); break;
        case 1: expect = std::to_string((unsigned int)val); break;
        case 2: expect = std::to_string(clamp_int<long>(val)); break;
        case 3: expect = std::to_string((unsigned long)val); break;
        case 4: expect = std::to_string(clamp_int<long long>(val)); break;
        default: expect = std::to_string((unsigned long long)val); break;
        }
        do_append(c, op, o, expect, false, false, [&] {
            switch (ty) {
            case 0: *o->p() << clamp_int<int>(val); break;
            case 1: *o->p() << (unsigned int)val; break;
            case 2: *o->p() << clamp_int<long>(val); break;
            case 3: *o->p() << (unsigned long)val; break;
            case 4: *o->p() << clamp_int<long long>(val); break;
            default: *o->p() << (unsigned long long)val; break;
            }
        });
        return true;
    }
    case SS_SHL_FLOAT: {
        SsObj *o = pick(v, op.a);
        if (!o) { c.skipped = true; return true; }
        double val = dbl_value(op.b);
        bool is_float = op.c & 1;
        note_sig(c, op, is_float ? "float" : "double");
        char buf[96];
        std::snprintf(buf, sizeof buf, "%g", is_float ? (double)(float)val : val);
        do_append(c, op, o, buf, false, false, [&] { if (is_float) *o->p() << (float)val; else *o->p() << val; });
        return true;
    }
    case SS_SHL_TEXT: {
        SsObj *o = pick(v, op.a);
        if (!o) { c.skipped = true; return true; }
        unsigned form = op.d % 18;
        char e[32]; std::snprintf(e, sizeof e, "%s,form=%u%s", mode(o), form, (op.fault & F_CORRUPT) ? ",corrupted" : ""); note_sig(c, op, e);
        bool corrupt = (op.fault & F_CORRUPT) != 0;
        // narrow forms store bytes as given; wide forms transcode (and may reject corrupted input)
        std::string n8 = take_units<char>(c, op.b, op.c);
        std::wstring nw = take_units<wchar_t>(c, op.b, op.c);
        std::u16string n16 = take_units<char16_t>(c, op.b, op.c);
        std::u32string n32 = take_units<char32_t>(c, op.b, op.c);
        bool wide = false; std::string expect;
        auto utf8_of32 = [](const std::u32string &s) { std::string r; enc_utf8(s, r); return r; };
        auto w_to32 = [](const std::wstring &w) { return std::u32string(w.begin(), w.end()); };
        auto u16_to32 = [](const std::u16string &u) {
            std::u32string r;
            for (size_t i = 0; i < u.size(); i++) {
                char32_t ch = u[i];
                if (ch >= 0xD800 && ch <= 0xDBFF && i + 1 < u.size()) { ch = 0x10000 + ((ch & 0x3FF) << 10) + (u[i + 1] & 0x3FF); ++i; }
                r += ch;
            }
            return r;
        };
        switch (form) {
        case 0: case 4: if (corrupt) corrupt_units<char>(n8, op.fc); expect = cut_at_nul(n8); break;
        case 5: case 9: case 10: case 14: if (corrupt) corrupt_units<char>(n8, op.fc); expect = n8; break;
        case 1: wide = true; if (corrupt) corrupt_units<wchar_t>(nw, op.fc); expect = utf8_of32(w_to32(cut_at_nul(nw))); break;
        case 6: case 11: wide = true; if (corrupt) corrupt_units<wchar_t>(nw, op.fc); expect = utf8_of32(w_to32(nw)); break;
        case 2: wide = true; if (corrupt) corrupt_units<char16_t>(n16, op.fc); expect = utf8_of32(u16_to32(cut_at_nul(n16))); break;
        case 7: case 12: wide = true; if (corrupt) corrupt_units<char16_t>(n16, op.fc); expect = utf8_of32(u16_to32(n16)); break;
        case 3: wide = true; if (corrupt) corrupt_units<char32_t>(n32, op.fc); expect = utf8_of32(cut_at_nul(n32)); break;
        case 8: case 13: wide = true; if (corrupt) corrupt_units<char32_t>(n32, op.fc); expect = utf8_of32(n32); break;
        case 17: {   // std::filesystem::path: the stream gets the path's native bytes as they are - repeated and trailing separators included
            n8 = cut_at_nul(n8); for (size_t i = 3; i < n8.size(); i += 7) n8[i] = '/';
            if (op.c & 1) n8.insert(n8.size() / 2, "//"); if (op.c & 2) n8 = "//" + n8; if (op.c & 4) n8 += "///";
            expect = n8; break; }
        default: expect.clear(); break;      // 15, 16: null pointers append nothing
        }
        std::u8string n8u((const char8_t *)n8.data(), n8.size());
        std::filesystem::path fpath; if (form == 17) fpath = std::filesystem::path(n8u);
        do_append(c, op, o, expect, wide && corrupt, wide && corrupt, [&] {
            ST::string_stream &s = *o->p();
            switch (form) {
            case 0: s << n8.c_str(); break;
            case 1: s << nw.c_str(); break;
            case 2: s << n16.c_str(); break;
            case 3: s << n32.c_str(); break;
            case 4: s << n8u.c_str(); break;
            case 5: s << n8; break;
            case 6: s << nw; break;
            case 7: s << n16; break;
            case 8: s << n32; break;
            case 9: s << n8u; break;
            case 10: s << std::string_view(n8); break;
            case 11: s << std::wstring_view(nw); break;
            case 12: s << std::u16string_view(n16); break;
            case 13: s << std::u32string_view(n32); break;
            case 14: s << std::u8string_view(n8u); break;
            case 15: s << (const char *)nullptr; break;
            case 17: s << fpath; break;
            default: s << (const wchar_t *)nullptr; s << (const char16_t *)nullptr; s << (const char32_t *)nullptr; break;
            }
        });
        return true;
    }
    case SS_TRUNCATE: case SS_ERASE: {
        SsObj *o = pick(v, op.a);
        if (!o) { c.skipped = true; return true; }
        size_t n = resolve_code(op.b, o->model.size());
        // counts far above the size are legal ("everything"): SIZE_MAX itself, and values just past the sign bit, where a count
        // that an implementation turns into a signed difference wraps
        if (op.b == 1005) n = (SIZE_MAX >> 1) + 1 + o->model.size() + (op.a & 3);
        char e[48]; std::snprintf(e, sizeof e, "%s,%s", mode(o), n < o->model.size() ? "below" : n == o->model.size() ? "at" : "above"); note_sig(c, op, e);
        if (o->moved_from) c.touched_moved_from = true;
        as_target(o);
        ExcKind ex = run_sut(c, op, [&] {
            if (op.kind == SS_TRUNCATE) { if (n == 0 && (op.b & 1) == 0) o->p()->truncate(); else o->p()->truncate(n); }
            else o->p()->erase(n);
        });
        if (settle(c, op, ex, 0)) {
            if (op.kind == SS_TRUNCATE) { if (n < o->model.size()) o->model.resize(n); }
            else { if (n < o->model.size()) o->model.resize(o->model.size() - n); else o->model.clear(); }
        }
        return true;
    }
    case SS_TO_STRING: {
        SsObj *o = pick(v, op.a);
        if (!o) { c.skipped = true; return true; }
        bool utf8 = (op.b % 4) != 3;
        ST::utf_validation_t val = (op.c % 3 == 0) ? ST::check_validity : (op.c % 3 == 1) ? ST::substitute_invalid : ST::assume_valid;
        bool wf = strict_utf8(o->model.data(), o->model.size());
        // one call in four is made on the stream as an rvalue - std::move(ss).to_string(): a stream about to die may hand its storage over. What it
        // holds afterwards is then its old content or nothing, and it is a valid stream either way
        const bool rv = ((op.b >> 4) & 3) == 0;
        char e[56]; std::snprintf(e, sizeof e, "%s,%s,%s%s", mode(o), utf8 ? "utf8" : "latin1", wf ? "wf" : "invalid", rv ? ",rvalue" : ""); note_sig(c, op, e);
        c.budget_bytes = 3 * o->model.size();
        if (!wf && utf8) probe(c, PR_SS_TO_STRING_INVALID);
        if (rv) as_target(o); else as_const(o);
        bool ok = true; std::string got;
        bool defaults = (op.c % 3 == 0) && (op.b & 4);
        // "returns those bytes as a validated UTF-8 string": what validation accepts is another property's business, so the reference is the
        // library's own validating entry point on the same bytes with the same mode - to_string() must behave exactly like it
        bool ref_used = false, ref_throws = false; std::string ref;
        if (utf8 && !wf && !has_c03_hazard(o->model.data(), o->model.size())) {
            ref_used = true;
            run_quiet([&] { simrt::SutScope sc; try { ST::string r = ST::string::from_utf8(o->model.data(), o->model.size(), val); ref.assign(r.c_str(), r.size()); } catch (const ST::unicode_error &) { ref_throws = true; } });
        }
        ExcKind ex = run_sut(c, op, [&] {
            ST::string r = rv ? (defaults ? (utf8 ? std::move(*o->p()).to_string() : std::move(*o->p()).to_string(false)) : std::move(*o->p()).to_string(utf8, val))
                              : defaults ? (utf8 ? o->p()->to_string() : o->p()->to_string(false)) : o->p()->to_string(utf8, val);
            got.assign(r.c_str(), r.size());
        });
        if (ref_used && !c.fired && ex != EX_BAD_ALLOC) {
            if (ref_throws && ex == EX_NONE) set_viol(c, "value_mismatch", "to_string() returned a string although ST::string::from_utf8 rejects the same bytes under the same validation mode (not validated)");
            else if (!ref_throws && ex == EX_NONE && got != ref) set_viol(c, "value_mismatch", "to_string() returned other bytes than ST::string::from_utf8 yields for the stream content under the same validation mode");
            else if (!ref_throws && ex == EX_UNICODE) set_viol(c, "value_mismatch", "to_string() threw unicode_error although ST::string::from_utf8 accepts the same bytes under the same validation mode");
        }
        if (settle(c, op, ex, (!wf && utf8) ? bit(EX_UNICODE) : 0)) {
            if (utf8) { if (wf || val != ST::substitute_invalid) ok = (got == o->model); }
            else ok = (got == latin1_ref(o->model));
            if (!ok) set_viol(c, "value_mismatch", "to_string() returned bytes that differ from the stream content");
            if (rv && o->st == M_DEFINITE) o->st = M_OLD_OR_EMPTY;
        }
        return true;
    }
    case SS_READ: {
        SsObj *o = pick(v, op.a);
        if (!o) { c.skipped = true; return true; }
        note_sig(c, op, mode(o));
        as_const(o);
        bool ok = true;
        ExcKind ex = run_sut(c, op, [&] { ok = o->p()->size() == o->model.size() && (o->model.empty() || !std::memcmp(o->p()->raw_buffer(), o->model.data(), o->model.size())); });
        settle(c, op, ex, 0);
        if (!ok) set_viol(c, "value_mismatch", "size()/raw_buffer() disagree with the model");
        return true;
    }
    case SS_DESTROY: {
        SsObj *o = pick(v, op.a);
        if (!o) { c.skipped = true; return true; }
        char e[48]; std::snprintf(e, sizeof e, "%s%s", mode(o), o->moved_from ? ",moved_from" : ""); note_sig(c, op, e);
        note_destroying(c, o);
        ExcKind ex = run_sut(c, op, [&] { o->p()->~string_stream(); });
        obj_free(o->mem); remove_obj(c, o); delete o;
        settle(c, op, ex, 0);
        return true;
    }
    default: return false;
    }
}

} // namespace A
