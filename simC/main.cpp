// Engine C command line: batch | dump | shrink | replay
#include "simc.h"
#include <algorithm>
#include <cstdlib>
#include <cstring>
#include <fstream>
#include <functional>
#include <set>
#include <sstream>
#include <sys/wait.h>
#include <unistd.h>

namespace C { RunResult run_plan(const Plan &p, Stats *st, std::vector<uint64_t> *nontrivial_pairs); }
using namespace C;

static uint64_t run_seed(uint64_t base, uint64_t index) { return simrt::mix(base, 17, index); }
static std::string one_line(std::string s) { for (auto &ch : s) if (ch == '\n' || ch == '\r') ch = ' '; return s; }
static std::string json_escape(const std::string &s) {
    std::string o;
    for (unsigned char ch : s) {
        if (ch == '"' || ch == '\\') { o += '\\'; o += (char)ch; }
        else if (ch < 0x20 || ch >= 0x7F) { char b[8]; std::snprintf(b, sizeof b, "\\u%04x", ch); o += b; }
        else o += (char)ch;
    }
    return o;
}
static const char *arg(int argc, char **argv, const char *name, const char *dflt) {
    for (int i = 2; i + 1 < argc; i++) if (!std::strcmp(argv[i], name)) return argv[i + 1];
    return dflt;
}
static bool flag(int argc, char **argv, const char *name) { for (int i = 2; i < argc; i++) if (!std::strcmp(argv[i], name)) return true; return false; }

struct Outcome { std::string cls, site; bool violated = false; };
// Calls that the same worker process executed *before* the failing one.  A library with state of static or thread storage duration (a memo keyed
// by address, a per-thread scratch stream) carries it from one call into the next, so a violation may need its predecessors in order to show; a
// replay is then a sequence of plans.  Empty on a tree without such state.
static std::vector<Plan> g_prefix;
static void run_prefix() { for (const Plan &q : g_prefix) { simrt::run_deadline(60); (void)run_plan(q, nullptr, nullptr); } simrt::run_deadline(0); }
static Outcome run_forked(const Plan &p) {
    Outcome out; int fd[2];
    if (pipe(fd) != 0) { out.cls = "infra"; return out; }
    std::fflush(stdout);
    pid_t pid = fork();
    if (pid == 0) {
        close(fd[0]); dup2(fd[1], 1); close(fd[1]); alarm(g_prefix.empty() ? 20 : 120);
        run_prefix();
        RunResult rr = run_plan(p, nullptr, nullptr);
        if (rr.viol.set) std::printf("V class=%s site=%s\n", rr.viol.cls.c_str(), one_line(rr.viol.site).c_str()); else std::printf("OK\n");
        std::fflush(stdout); _exit(0);
    }
    close(fd[1]);
    std::string buf; char tmp[512]; ssize_t n;
    while ((n = read(fd[0], tmp, sizeof tmp)) > 0) buf.append(tmp, (size_t)n);
    close(fd[0]); int st = 0; waitpid(pid, &st, 0);
    auto field = [&](const char *key) {
        std::string k = std::string(" ") + key + "="; size_t p0 = buf.find(k);
        if (p0 == std::string::npos) return std::string();
        p0 += k.size(); size_t e = buf.find_first_of(" \n", p0);
        return buf.substr(p0, e == std::string::npos ? std::string::npos : e - p0);
    };
    if (!buf.compare(0, 2, "V ")) { out.violated = true; out.cls = field("class"); out.site = field("site"); }
    else if (buf.find("FATAL ") != std::string::npos) { buf = buf.substr(buf.find("FATAL ")); out.violated = true; out.cls = field("class"); out.site = field("site"); }
    else if (!buf.compare(0, 2, "OK")) out.violated = false;
    else { out.violated = true; out.cls = WIFSIGNALED(st) ? "signal" : (WIFEXITED(st) && WEXITSTATUS(st) == simrt::EXIT_SANITIZER) ? "sanitizer" : "died"; }
    return out;
}

static Plan shrink(const Plan &orig, const std::function<bool(const Plan &)> &holds, unsigned &tries) {
    Plan best = orig;
    auto still = [&](const Plan &c) { ++tries; return holds(c); };
    bool progress = true;
    while (progress && tries < 1500) {
        progress = false;
        for (size_t i = 0; i < best.sinks.size() && best.sinks.size() > 1;) { Plan c = best; c.sinks.erase(c.sinks.begin() + i); if (still(c)) { best = c; progress = true; } else ++i; }
        for (size_t i = 0; i < best.segs.size() && best.segs.size() > 1;) { Plan c = best; c.segs.erase(c.segs.begin() + i); if (still(c)) { best = c; progress = true; } else ++i; }
        for (size_t i = best.args.size(); i-- > 0;) { Plan c = best; c.args.erase(c.args.begin() + i); if (still(c)) { best = c; progress = true; } }
        for (size_t i = 0; i < best.segs.size(); i++) {
            Seg &g = best.segs[i];
            auto try_set = [&](auto member, auto value) { if (g.*member != value) { Plan c = best; c.segs[i].*member = value; if (still(c)) { best = c; progress = true; } } };
            if (g.type == 0) { for (uint32_t v : {0u, 1u, 4u}) if (v < g.n) { Plan c = best; c.segs[i].n = v; if (still(c)) { best = c; progress = true; break; } } }
            else if (g.type == 1) {
                try_set(&Seg::align, (uint8_t)0); try_set(&Seg::pad, (uint8_t)0); try_set(&Seg::prefix, (uint8_t)0); try_set(&Seg::plus, (uint8_t)0);
                try_set(&Seg::cls, (uint8_t)0); try_set(&Seg::prec, (int32_t)-1); try_set(&Seg::index, (uint32_t)0);
                for (uint32_t v : {0u, 2u, 8u}) if (v < best.segs[i].width) { Plan c = best; c.segs[i].width = v; if (still(c)) { best = c; progress = true; break; } }
            }
        }
        for (size_t i = 0; i < best.args.size(); i++) {
            for (uint32_t v : {0u, 1u, 3u}) if (v < best.args[i].n) { Plan c = best; c.args[i].n = v; if (still(c)) { best = c; progress = true; break; } }
            if (best.args[i].kind != AK_INT && best.args[i].kind != AK_RAWBYTES) { Plan c = best; c.args[i].kind = AK_INT; if (still(c)) { best = c; progress = true; } }
        }
        for (size_t i = 0; i < best.sinks.size(); i++) {
            if (best.sinks[i].ctx) { Plan c = best; c.sinks[i].ctx = 0; if (still(c)) { best = c; progress = true; } }
            if (best.sinks[i].fault) { Plan c = best; c.sinks[i].fault = 0; if (still(c)) { best = c; progress = true; } }
            if (best.sinks[i].b) { Plan c = best; c.sinks[i].b = 0; if (still(c)) { best = c; progress = true; } }
            if (best.sinks[i].a) { Plan c = best; c.sinks[i].a = 0; if (still(c)) { best = c; progress = true; } }
        }
        if (best.text_mix) { Plan c = best; c.text_mix = 0; if (still(c)) { best = c; progress = true; } }
    }
    return best;
}

static bool write_replay(const std::string &path, const Plan &p, const Outcome &o, const std::string &msg, uint64_t base, uint64_t index, unsigned tries, size_t before) {
    std::ofstream f(path); if (!f) return false;
    const char *variant = std::getenv("SIM_VARIANT");
    f << "{\n  \"engine\": \"simC\",\n  \"variant\": \"" << (variant ? variant : "plain") << "\",\n  \"property\": \"C17\",\n  \"verif_seed\": " << base << ",\n  \"index\": " << index
      << ",\n  \"run_seed\": " << p.seed << ",\n  \"class\": \"" << json_escape(o.cls) << "\",\n  \"site\": \"" << json_escape(o.site) << "\",\n  \"message\": \"" << json_escape(msg)
      << "\",\n";
    if (!g_prefix.empty()) {
        f << "  \"note\": \"the library under test keeps state between calls: the plans under earlier_histories are executed first, in this order, in the same process\",\n  \"earlier_histories\": [";
        for (size_t k = 0; k < g_prefix.size(); k++) {
            f << (k ? ",\n    {\"ops\": [\n" : "\n    {\"ops\": [\n");
            std::istringstream ps(plan_to_text(g_prefix[k])); std::string pl; bool pf = true;
            while (std::getline(ps, pl)) { f << (pf ? "      \"" : ",\n      \"") << json_escape(pl) << "\""; pf = false; }
            f << "\n    ]}";
        }
        f << "\n  ],\n";
    }
    f << "  \"original_items\": " << before << ",\n  \"minimised_items\": " << (p.segs.size() + p.args.size() + p.sinks.size()) << ",\n  \"shrink_executions\": " << tries << ",\n  \"plan\": [\n";
    std::istringstream is(plan_to_text(p)); std::string line; bool first = true;
    while (std::getline(is, line)) { f << (first ? "    \"" : ",\n    \"") << json_escape(line) << "\""; first = false; }
    f << "\n  ]\n}\n";
    return (bool)f;
}
static bool read_replay(const std::string &path, Plan &p, std::string &cls, std::string &err) {
    std::ifstream f(path); if (!f) { err = "cannot open " + path; return false; }
    std::stringstream ss; ss << f.rdbuf(); std::string all = ss.str();
    size_t c0 = all.find("\"class\": \""); if (c0 != std::string::npos) { c0 += 10; cls = all.substr(c0, all.find('"', c0) - c0); }
    auto lines_of = [](const std::string &body) { std::string text; size_t pos = 0;
        while ((pos = body.find('"', pos)) != std::string::npos) { size_t q = body.find('"', pos + 1); if (q == std::string::npos) break; text += body.substr(pos + 1, q - pos - 1) + "\n"; pos = q + 1; }
        return text; };
    g_prefix.clear();
    size_t h0 = all.find("\"earlier_histories\": [");
    if (h0 != std::string::npos) {
        size_t hend = all.find("\n  ],", h0), o = h0;
        while ((o = all.find("{\"ops\": [", o)) != std::string::npos && o < hend) {
            size_t e2 = all.find("]}", o); Plan q; std::string er2;
            if (!plan_from_text(lines_of(all.substr(o + 9, e2 - o - 9)), q, er2)) { err = "earlier history: " + er2; return false; }
            g_prefix.push_back(q); o = e2;
        }
    }
    size_t p0 = all.find("\"plan\": ["); if (p0 == std::string::npos) { err = "no plan"; return false; }
    size_t e = all.find(']', p0); std::string body = all.substr(p0 + 9, e - p0 - 9), text; size_t pos = 0;
    while ((pos = body.find('"', pos)) != std::string::npos) { size_t q = body.find('"', pos + 1); if (q == std::string::npos) break; text += body.substr(pos + 1, q - pos - 1) + "\n"; pos = q + 1; }
    return plan_from_text(text, p, err);
}

int main(int argc, char **argv) {
    if (argc < 2) { std::fprintf(stderr, "usage: simC batch|dump|shrink|replay ...\n"); return 2; }
    std::setvbuf(stdout, nullptr, _IOLBF, 0);
    simrt::fatal_install();
    std::string cmd = argv[1];
    uint64_t base = std::strtoull(arg(argc, argv, "--seed", "1"), nullptr, 10);
    {   // warm-up (lazy libstdc++ / stdio initialisation) without any library-under-test code
        simrt::SutScope sut;
        std::ostringstream os; os << 1.5 << "x" << 42; std::wostringstream ws; ws << L"w" << 7;
        std::istringstream is("tok en"); std::string t; is >> t; std::wistringstream wis(L"tok en"); std::wstring wt; wis >> wt;
        try { throw std::runtime_error("warm-up"); } catch (const std::exception &) { }
        char b[64]; std::snprintf(b, sizeof b, "%g %e %f", 1.5, 2.5, 3.5);
        FILE *f = fopen("/dev/null", "w"); if (f) { fputc('x', f); fwrite("ab", 1, 2, f); fclose(f); }
    }

    if (cmd == "batch") {
        uint64_t start = std::strtoull(arg(argc, argv, "--start", "0"), nullptr, 10), count = std::strtoull(arg(argc, argv, "--count", "1000"), nullptr, 10);
        uint64_t stride = std::strtoull(arg(argc, argv, "--stride", "1"), nullptr, 10);
        double max_s = std::atof(arg(argc, argv, "--max-seconds", "0"));
        bool per_run = flag(argc, argv, "--per-run"); unsigned max_report = (unsigned)std::atoi(arg(argc, argv, "--max-report", "20"));
        Stats st; std::set<uint64_t> distinct; uint64_t viols = 0, runs = 0, nt = 0; bool stop_after_violation = false;
        struct timespec t0; clock_gettime(CLOCK_MONOTONIC, &t0);
        for (uint64_t n = 0; n < count; n++) {
            uint64_t i = start + n * stride, rs = run_seed(base, i);
            Plan p = gen_plan(rs); simrt::run_deadline(60);
            C::g_index = i;
            std::vector<uint64_t> pairs;
            RunResult rr = run_plan(p, &st, &pairs);
            ++runs; if (rr.nontrivial) ++nt;
            for (uint64_t h : pairs) distinct.insert(h);
            if (per_run) std::printf("R i=%llu sig=%016llx nt=%d pairs=%llu\n", (unsigned long long)i, (unsigned long long)rr.sig, rr.nontrivial ? 1 : 0, (unsigned long long)rr.pairs);
            if (rr.viol.set) { ++viols; stop_after_violation = true; std::printf("V i=%llu runseed=%llu class=%s step=0 site=%s msg=%s\n", (unsigned long long)i, (unsigned long long)rs, rr.viol.cls.c_str(), one_line(rr.viol.site).c_str(), one_line(rr.viol.msg).c_str()); }
            if (max_s > 0 && (n & 63) == 63) { struct timespec t1; clock_gettime(CLOCK_MONOTONIC, &t1); if ((t1.tv_sec - t0.tv_sec) + (t1.tv_nsec - t0.tv_nsec) * 1e-9 > max_s) break; }
            if (stop_after_violation && rr.viol.cls != "wide_writef_chunk_not_self_contained") break; else stop_after_violation = false;
        }
        std::printf("S {\"runs\": %llu, \"violations\": %llu, \"pairs\": %llu, \"calls\": %llu, \"rejected_by_format\": %llu, \"steps\": %llu, \"nontrivial_runs\": %llu, \"distinct_nontrivial\": %zu, "
                    "\"faults\": {\"sink_faults_planned\": %llu, \"sink_faults_fired\": %llu, \"cookie_write_failure\": %llu, \"ostream_overflow_failure\": %llu, \"istream_read_failure\": %llu, \"corrupted_source_token\": %llu}, \"per_sink\": {",
                    (unsigned long long)runs, (unsigned long long)viols, (unsigned long long)st.pairs, (unsigned long long)st.calls, (unsigned long long)st.rejected_by_format, (unsigned long long)st.steps,
                    (unsigned long long)nt, distinct.size(), (unsigned long long)st.sink_faults_planned, (unsigned long long)st.sink_faults_fired, (unsigned long long)st.fault_kinds[0],
                    (unsigned long long)st.fault_kinds[1], (unsigned long long)st.fault_kinds[2], (unsigned long long)st.fault_kinds[3]);
        for (int i = 0; i < SK__COUNT; i++) std::printf("%s\"%s\": %llu", i ? ", " : "", sink_name(i), (unsigned long long)st.per_sink[i]);
        std::printf("}, \"probes\": {");
        for (int i = 0; i < PC__COUNT; i++) std::printf("%s\"%s\": %llu", i ? ", " : "", probe_name(i), (unsigned long long)st.probe[i]);
        std::printf("}}\n");
        const char *sigfile = arg(argc, argv, "--sigs", nullptr);
        if (sigfile) { std::ofstream f(sigfile, std::ios::binary); for (uint64_t h : distinct) f.write((const char *)&h, 8); }
        if (stop_after_violation) { std::fflush(stdout); _exit(3); }
        return 0;
    }
    if (cmd == "dump") { uint64_t i = std::strtoull(arg(argc, argv, "--index", "0"), nullptr, 10); std::fputs(plan_to_text(gen_plan(run_seed(base, i))).c_str(), stdout); return 0; }
    if (cmd == "shrink") {
        uint64_t i = std::strtoull(arg(argc, argv, "--index", "0"), nullptr, 10); const char *out = arg(argc, argv, "--out", "replay.json");
        Plan p = gen_plan(run_seed(base, i));
        Outcome a = run_forked(p), b = run_forked(p);
        unsigned tries = 0; size_t before = p.segs.size() + p.args.size() + p.sinks.size();
        const char *cs = arg(argc, argv, "--chain-start", nullptr);
        if ((!a.violated || !b.violated || a.cls != b.cls) && cs) {
            // not from its own plan alone: re-execute what the worker had executed before it in the same process (see g_prefix), minimise the predecessors
            uint64_t c0 = std::strtoull(cs, nullptr, 10), stride = std::strtoull(arg(argc, argv, "--chain-stride", "1"), nullptr, 10); if (!stride) stride = 1;
            for (uint64_t j = c0; j < i && g_prefix.size() < 8000; j += stride) g_prefix.push_back(gen_plan(run_seed(base, j)));
            a = run_forked(p); b = run_forked(p);
            if (a.violated && b.violated && a.cls == b.cls) {
                struct timespec t0; clock_gettime(CLOCK_MONOTONIC, &t0);
                auto elapsed = [&] { struct timespec t1; clock_gettime(CLOCK_MONOTONIC, &t1); return (t1.tv_sec - t0.tv_sec) + (t1.tv_nsec - t0.tv_nsec) * 1e-9; };
                auto holds_with = [&](const std::vector<Plan> &pre) { std::vector<Plan> keep; keep.swap(g_prefix); g_prefix = pre; ++tries; Outcome o = run_forked(p); g_prefix.swap(keep); return o.violated && o.cls == a.cls; };
                std::vector<Plan> best = g_prefix; size_t chunk = std::max<size_t>(1, best.size() / 2);
                while (chunk >= 1 && elapsed() < 40) {
                    bool removed = false;
                    for (size_t st = 0; st < best.size() && elapsed() < 40;) { std::vector<Plan> cand = best; size_t en = std::min(best.size(), st + chunk); cand.erase(cand.begin() + st, cand.begin() + en); if (holds_with(cand)) { best = cand; removed = true; } else st += chunk; }
                    if (chunk == 1 && !removed) break;
                    if (!removed) chunk /= 2; else chunk = std::min(chunk, std::max<size_t>(1, best.size() / 2));
                    if (chunk == 0) break;
                }
                g_prefix = best;
                for (size_t k = 0; k < g_prefix.size() && k < 4 && elapsed() < 70; k++) {
                    Plan orig = g_prefix[k];
                    g_prefix[k] = shrink(orig, [&](const Plan &cand) { Plan keep = g_prefix[k]; g_prefix[k] = cand; Outcome o = run_forked(p); g_prefix[k] = keep; return o.violated && o.cls == a.cls; }, tries);
                    Outcome chk = run_forked(p); if (!chk.violated || chk.cls != a.cls) g_prefix[k] = orig;
                }
            }
        }
        if (!a.violated || !b.violated || a.cls != b.cls) { std::printf("NOREPRO first=%s second=%s\n", a.violated ? a.cls.c_str() : "ok", b.violated ? b.cls.c_str() : "ok"); return 2; }
        Plan m = shrink(p, [&](const Plan &cand) { Outcome o = run_forked(cand); return o.violated && o.cls == a.cls; }, tries);
        Outcome fin = run_forked(m); if (!fin.violated || fin.cls != a.cls) { m = p; fin = a; }
        std::string msg;
        { int fd[2]; if (pipe(fd) == 0) { pid_t pid = fork(); if (pid == 0) { close(fd[0]); alarm(120); run_prefix(); RunResult r2 = run_plan(m, nullptr, nullptr); ssize_t w = write(fd[1], r2.viol.msg.data(), r2.viol.msg.size()); (void)w; _exit(0); }
            close(fd[1]); char tmp[1024]; ssize_t n; while ((n = read(fd[0], tmp, sizeof tmp)) > 0) msg.append(tmp, (size_t)n); close(fd[0]); int st; waitpid(pid, &st, 0); } }
        if (!write_replay(out, m, fin, msg, base, i, tries, before)) { std::printf("cannot write %s\n", out); return 2; }
        if (g_prefix.empty()) std::printf("SHRUNK class=%s site=%s ops=%zu->%zu executions=%u file=%s\n", fin.cls.c_str(), fin.site.c_str(), before, m.segs.size() + m.args.size() + m.sinks.size(), tries, out);
        else std::printf("SHRUNK class=%s site=%s ops=%zu->%zu earlier_calls=%zu (the library keeps state between calls) executions=%u file=%s\n", fin.cls.c_str(), fin.site.c_str(), before, m.segs.size() + m.args.size() + m.sinks.size(), g_prefix.size(), tries, out);
        return 0;
    }
    if (cmd == "replay") {
        Plan p; std::string cls, err;
        if (argc < 3 || !read_replay(argv[2], p, cls, err)) { std::fprintf(stderr, "%s\n", err.c_str()); return 2; }
        if (flag(argc, argv, "--show")) std::fputs(plan_to_text(p).c_str(), stdout);
        run_prefix();
        RunResult rr = run_plan(p, nullptr, nullptr);
        if (rr.viol.set) { std::printf("V i=0 runseed=%llu class=%s step=0 site=%s msg=%s\n", (unsigned long long)p.seed, rr.viol.cls.c_str(), one_line(rr.viol.site).c_str(), one_line(rr.viol.msg).c_str()); return 1; }
        std::printf("OK no violation (expected class %s)\n", cls.c_str()); return 0;
    }
    std::fprintf(stderr, "unknown command\n"); return 2;
}
