// Engine C — sink simulator implementation.
#include "simc.h"
#include <cstring>
#include <thread>
#include <sstream>
#include <functional>

namespace C {

// ------------------------------------------------------------------ names
// a ctype<char> facet whose white space also contains ',' and ';' (what a program reading separated values imbues in its input stream)
struct CsvCtype : std::ctype<char> {
    static const mask *table() { static std::vector<mask> t(classic_table(), classic_table() + table_size); t[(unsigned char)','] |= space; t[(unsigned char)';'] |= space; return t.data(); }
    CsvCtype() : std::ctype<char>(table()) {}
};
static const char *const AKN[AK__COUNT] = {"schar", "uchar", "short", "ushort", "int", "uint", "long", "ulong", "llong", "ullong", "bool", "char", "wchar_t",
    "char16_t", "char32_t", "char8_t", "float", "double", "complex", "cstr", "wcstr", "c16str", "c32str", "c8str", "ST::string", "std::string", "wstring",
    "u16string", "u32string", "u8string", "string_view", "wstring_view", "u16string_view", "u32string_view", "u8string_view", "null_cstr", "raw_bytes", "nested_format"};
const char *arg_kind_name(int k) { return (k >= 0 && k < AK__COUNT) ? AKN[k] : "?"; }
static const char *const SKN[SK__COUNT] = {"printf(FILE*)", "writef<char>", "writef<wchar_t>", "writef<char16_t>", "writef<char32_t>", "ostream<<", "wostream<<",
    "u16ostream<<", "u32ostream<<", "istream>>", "wistream>>", "format_latin_1", "printf(stdout)", "format(validation)/_stfmt"};
const char *sink_name(int k) { return (k >= 0 && k < SK__COUNT) ? SKN[k] : "?"; }
static const char *const PCN[PC__COUNT] = {"overflow_inside_padding_run", "overflow_between_surrogate_units", "eof_exactly_at_token_end", "refill_boundary_inside_multibyte_char",
    "flush_or_overflow_inside_call", "chunk_not_self_contained_generated", "invalid_token_rejected", "skipped_char16_sink_output_contains_U+FFFF", "extraction_with_field_width", "file_sink_with_stale_error_indicator", "file_sink_after_an_earlier_call_threw", "ostream_sink_with_pending_width_and_fill", "extraction_with_imbued_locale", "sink_used_from_a_destructor_during_stack_unwinding"};
const char *probe_name(int i) { return (i >= 0 && i < PC__COUNT) ? PCN[i] : "?"; }

// ------------------------------------------------------------------ plan text
std::string plan_to_text(const Plan &p) {
    char b[256]; std::string s;
    std::snprintf(b, sizeof b, "knobs seed=%llu data_seed=%llu text_mix=%u\n", (unsigned long long)p.seed, (unsigned long long)p.data_seed, p.text_mix); s += b;
    for (const Seg &g : p.segs) {
        std::snprintf(b, sizeof b, "seg type=%u src=%u n=%u align=%u pad=%u padch=%u prefix=%u plus=%u cls=%u width=%u prec=%d index=%u\n", g.type, g.src, g.n, g.align, g.pad,
                      g.padch, g.prefix, g.plus, g.cls, g.width, g.prec, g.index); s += b;
    }
    for (const ArgSpec &a : p.args) { std::snprintf(b, sizeof b, "arg kind=%u v=%u n=%u\n", a.kind, a.v, a.n); s += b; }
    for (const SinkCfg &k : p.sinks) { std::snprintf(b, sizeof b, "sink kind=%u a=%u b=%u fault=%u ctx=%u\n", k.kind, k.a, k.b, k.fault, k.ctx); s += b; }
    return s;
}
static bool kv(const char *line, const char *key, long long &out) {
    std::string pat = std::string(" ") + key + "="; const char *q = std::strstr(line, pat.c_str());
    if (!q) return false;
    q += pat.size();
    out = (*q == '-') ? std::strtoll(q, nullptr, 10) : (long long)std::strtoull(q, nullptr, 10);      // 64-bit seeds do not fit a signed parse
    return true;
}
bool plan_from_text(const std::string &t, Plan &p, std::string &err) {
    p = Plan(); size_t pos = 0;
    while (pos < t.size()) {
        size_t e = t.find('\n', pos); if (e == std::string::npos) e = t.size();
        std::string line = t.substr(pos, e - pos); pos = e + 1;
        if (line.empty()) continue;
        long long v; const char *l = line.c_str() + line.find(' ');
        if (!line.compare(0, 6, "knobs ")) { if (kv(l, "seed", v)) p.seed = (uint64_t)v; if (kv(l, "data_seed", v)) p.data_seed = (uint64_t)v; if (kv(l, "text_mix", v)) p.text_mix = (uint32_t)v; }
        else if (!line.compare(0, 4, "seg ")) {
            Seg g;
            if (kv(l, "type", v)) g.type = (uint8_t)v; if (kv(l, "src", v)) g.src = (uint32_t)v; if (kv(l, "n", v)) g.n = (uint32_t)v; if (kv(l, "align", v)) g.align = (uint8_t)v;
            if (kv(l, "pad", v)) g.pad = (uint8_t)v; if (kv(l, "padch", v)) g.padch = (uint8_t)v; if (kv(l, "prefix", v)) g.prefix = (uint8_t)v; if (kv(l, "plus", v)) g.plus = (uint8_t)v;
            if (kv(l, "cls", v)) g.cls = (uint8_t)v; if (kv(l, "width", v)) g.width = (uint32_t)v; if (kv(l, "prec", v)) g.prec = (int32_t)v; if (kv(l, "index", v)) g.index = (uint32_t)v;
            p.segs.push_back(g);
        } else if (!line.compare(0, 4, "arg ")) { ArgSpec a; if (kv(l, "kind", v)) a.kind = (uint8_t)v; if (kv(l, "v", v)) a.v = (uint32_t)v; if (kv(l, "n", v)) a.n = (uint32_t)v; p.args.push_back(a); }
        else if (!line.compare(0, 5, "sink ")) { SinkCfg k; if (kv(l, "kind", v)) k.kind = (uint8_t)v; if (kv(l, "a", v)) k.a = (uint32_t)v; if (kv(l, "b", v)) k.b = (uint32_t)v; if (kv(l, "fault", v)) k.fault = (uint32_t)v; if (kv(l, "ctx", v)) k.ctx = (uint32_t)v; p.sinks.push_back(k); }
        else { err = "bad line: " + line; return false; }
    }
    return true;
}

// ------------------------------------------------------------------ reference text
typedef std::u32string Scalars;
static void enc8(const Scalars &s, std::string &o) {
    o.clear();
    for (char32_t c : s) {
        if (c < 0x80) o += (char)c;
        else if (c < 0x800) { o += (char)(0xC0 | (c >> 6)); o += (char)(0x80 | (c & 0x3F)); }
        else if (c < 0x10000) { o += (char)(0xE0 | (c >> 12)); o += (char)(0x80 | ((c >> 6) & 0x3F)); o += (char)(0x80 | (c & 0x3F)); }
        else { o += (char)(0xF0 | (c >> 18)); o += (char)(0x80 | ((c >> 12) & 0x3F)); o += (char)(0x80 | ((c >> 6) & 0x3F)); o += (char)(0x80 | (c & 0x3F)); }
    }
}
static void enc16(const Scalars &s, std::u16string &o) {
    o.clear();
    for (char32_t c : s) { if (c < 0x10000) o += (char16_t)c; else { char32_t v = c - 0x10000; o += (char16_t)(0xD800 | (v >> 10)); o += (char16_t)(0xDC00 | (v & 0x3FF)); } }
}
static bool dec8_strict(const std::string &s, Scalars &out) {
    out.clear();
    const unsigned char *p = (const unsigned char *)s.data(); size_t n = s.size(), i = 0;
    while (i < n) {
        unsigned char b = p[i]; char32_t c; size_t l;
        if (b < 0x80) { c = b; l = 1; }
        else if (b >= 0xC2 && b <= 0xDF) { if (i + 2 > n || (p[i + 1] & 0xC0) != 0x80) return false; c = ((b & 0x1F) << 6) | (p[i + 1] & 0x3F); l = 2; }
        else if (b >= 0xE0 && b <= 0xEF) {
            if (i + 3 > n || (p[i + 1] & 0xC0) != 0x80 || (p[i + 2] & 0xC0) != 0x80) return false;
            if ((b == 0xE0 && p[i + 1] < 0xA0) || (b == 0xED && p[i + 1] > 0x9F)) return false;
            c = ((b & 0x0F) << 12) | ((p[i + 1] & 0x3F) << 6) | (p[i + 2] & 0x3F); l = 3;
        } else if (b >= 0xF0 && b <= 0xF4) {
            if (i + 4 > n || (p[i + 1] & 0xC0) != 0x80 || (p[i + 2] & 0xC0) != 0x80 || (p[i + 3] & 0xC0) != 0x80) return false;
            if ((b == 0xF0 && p[i + 1] < 0x90) || (b == 0xF4 && p[i + 1] > 0x8F)) return false;
            c = ((b & 0x07) << 18) | ((p[i + 1] & 0x3F) << 12) | ((p[i + 2] & 0x3F) << 6) | (p[i + 3] & 0x3F); l = 4;
        } else return false;
        out += c; i += l;
    }
    return true;
}
static std::string latin1_ref(const std::string &b) {
    std::string o;
    for (unsigned char ch : b) { if (ch < 0x80) o += (char)ch; else { o += (char)(0xC0 | (ch >> 6)); o += (char)(0x80 | (ch & 0x3F)); } }
    return o;
}

static char32_t draw_scalar(Rng &r, uint32_t mix) {
    uint32_t w = r.below(100);
    if (mix == 0 || (mix == 1 && w < 75) || (mix >= 2 && w < 40)) {
        char32_t c; do { c = 0x20 + r.below(0x5F); } while (c == '{' || c == '}'); return c;
    }
    switch (r.below(6)) {
    case 0: return 0xA0 + r.below(0x760);
    case 1: return 0x800 + r.below(0xD000);
    case 2: return 0xE000 + r.below(0x1FFE);
    case 3: return 0x10000 + r.below(0x100000);
    case 4: { static const char32_t E[] = {0x7F, 0x80, 0x7FF, 0x800, 0xD7FF, 0xE000, 0xFFFD, 0x10000, 0x10FFFF, 0xE9, 0x20AC, 0x1F600}; return E[r.below(12)]; }
    default: return (w & 1) ? ' ' : '\t';
    }
}
static Scalars source_text(uint64_t data_seed, uint32_t src, uint32_t n, uint32_t mix) {
    Rng r; r.seed(simrt::mix(data_seed, src, 0xC17));
    Scalars s; s.reserve(n);
    // one text in eight is homogeneous: every character 4 (3, 2) UTF-8 bytes - the extreme expansion ratios between the encodings
    const unsigned homo = (mix != 0 && src % 8 == 5) ? 1 + (src >> 3) % 3 : 0;
    for (uint32_t i = 0; i < n; i++) {
        char32_t ch = draw_scalar(r, mix);
        if (homo) ch = homo == 1 ? (char32_t)(0x10000 + r.below(0x100000)) : homo == 2 ? (char32_t)(0x800 + r.below(0xD000)) : (char32_t)(0xA0 + r.below(0x700));
        s += ch;
    }
    return s;
}
static long long int_value(uint32_t i) {
    static const long long T[] = {0, 1, -1, 7, -9, 10, 99, -100, 255, 256, 4096, -4097, 12345, -12345, 32767, -32767, 65535, 65536, 1000000007LL, -999999999LL,
                                  2147483647LL, -2147483647LL, 4294967295LL, 4294967296LL, 9223372036854775807LL, -9223372036854775807LL, 0x41, 0xE9, 0x20AC, 0x1F600, 0x110000, -5,
                                  -2147483648LL, -9223372036854775807LL - 1, -32768, -128};
    return T[i % (sizeof T / sizeof T[0])];
}
static double dbl_value(uint32_t i) {
    static const double T[] = {0.0, 1.0, -1.0, 1.5, -2.25, 3.14159, 16384.0, 0.0234, 1e10, 1e-5, 123456789.125, -0.5e-7, 99999.5, 1e14, -1e14, 1.0 / 3.0, 2.5e-10};
    return T[i % (sizeof T / sizeof T[0])];
}
// (the most negative value of a type reaches std::abs() in the library - C12's finding: kept out of the sanitizer build only, DESIGN.md 11.3 round 11)
template <class I> static I clampi(long long v) {
    I r = (I)v;
#ifdef SIMRT_ASAN
    if (std::numeric_limits<I>::is_signed && r == std::numeric_limits<I>::min()) r = (I)(r + 1);
#endif
    return r;
}

// ------------------------------------------------------------------ arguments, routed through the public format_type extension point
struct AnyArg {
    uint8_t kind = AK_INT; long long i = 0; double d = 0;
    std::string s8; std::wstring sw; std::u16string s16; std::u32string s32; std::u8string su8; ST::string st;
};
void format_type(const ST::format_spec &f, ST::format_writer &o, const AnyArg &a) {
    switch (a.kind) {
    case AK_SCHAR: ST::format_type(f, o, clampi<signed char>(a.i)); break;
    case AK_UCHAR: ST::format_type(f, o, (unsigned char)a.i); break;
    case AK_SHORT: ST::format_type(f, o, clampi<short>(a.i)); break;
    case AK_USHORT: ST::format_type(f, o, (unsigned short)a.i); break;
    case AK_INT: ST::format_type(f, o, clampi<int>(a.i)); break;
    case AK_UINT: ST::format_type(f, o, (unsigned int)a.i); break;
    case AK_LONG: ST::format_type(f, o, clampi<long>(a.i)); break;
    case AK_ULONG: ST::format_type(f, o, (unsigned long)a.i); break;
    case AK_LLONG: ST::format_type(f, o, clampi<long long>(a.i)); break;
    case AK_ULLONG: ST::format_type(f, o, (unsigned long long)a.i); break;
    case AK_BOOL: ST::format_type(f, o, (bool)(a.i & 1)); break;
    case AK_CHAR: ST::format_type(f, o, (char)(0x20 + (a.i & 0x3F))); break;
    case AK_WCHAR: ST::format_type(f, o, (wchar_t)a.i); break;
    case AK_CHAR16: ST::format_type(f, o, (char16_t)a.i); break;
    case AK_CHAR32: ST::format_type(f, o, (char32_t)a.i); break;
    case AK_CHAR8: ST::format_type(f, o, (char8_t)(0x20 + (a.i & 0x3F))); break;
    case AK_FLOAT: ST::format_type(f, o, (float)a.d); break;
    case AK_DOUBLE: ST::format_type(f, o, a.d); break;
    case AK_COMPLEX: ST::format_type(f, o, std::complex<double>(a.d, -a.d / 2)); break;
    case AK_CSTR: case AK_RAWBYTES: ST::format_type(f, o, a.s8.c_str()); break;
    case AK_WCSTR: ST::format_type(f, o, a.sw.c_str()); break;
    case AK_C16STR: ST::format_type(f, o, a.s16.c_str()); break;
    case AK_C32STR: ST::format_type(f, o, a.s32.c_str()); break;
    case AK_C8STR: ST::format_type(f, o, a.su8.c_str()); break;
    case AK_STSTRING: ST::format_type(f, o, a.st); break;
    case AK_STDSTRING: ST::format_type(f, o, a.s8); break;
    case AK_WSTRING: ST::format_type(f, o, a.sw); break;
    case AK_U16STRING: ST::format_type(f, o, a.s16); break;
    case AK_U32STRING: ST::format_type(f, o, a.s32); break;
    case AK_U8STRING: ST::format_type(f, o, a.su8); break;
    case AK_SV: ST::format_type(f, o, std::string_view(a.s8)); break;
    case AK_WSV: ST::format_type(f, o, std::wstring_view(a.sw)); break;
    case AK_U16SV: ST::format_type(f, o, std::u16string_view(a.s16)); break;
    case AK_U32SV: ST::format_type(f, o, std::u32string_view(a.s32)); break;
    case AK_U8SV: ST::format_type(f, o, std::u8string_view(a.su8)); break;
    case AK_NESTED: {
        // a user-defined formatter that itself formats: it builds its text with a complete, nested ST::format / _stfmt call and hands the result on
        using namespace ST::literals;
        ST::string inner = (a.i & 1) ? ST::format("({}|{>4})", a.i, a.s8) : "<{}:{x}>"_stfmt(a.s8, (unsigned)a.i);
        ST::format_type(f, o, inner);
        break; }
    default: ST::format_type(f, o, (const char *)nullptr); break;
    }
}

static bool is_codepoint_kind(uint8_t k) { return k == AK_WCHAR || k == AK_CHAR16 || k == AK_CHAR32; }

static AnyArg make_arg(const Plan &p, const ArgSpec &a) {
    AnyArg x; x.kind = a.kind % AK__COUNT;
    x.i = int_value(a.v); x.d = dbl_value(a.v);
    if (is_codepoint_kind(x.kind)) {
        // code points: valid scalars, or values above U+10FFFF for char32_t/wchar_t (rendered as U+FFFD by {c})
        static const long long CP[] = {0x41, 0x7A, 0xE9, 0x3A9, 0x20AC, 0xFFFD, 0x1F600, 0x10FFFF, 0x110000, 0x7FFFFFFF, 0x30, 0x7F};
        x.i = CP[a.v % 12];
        if (x.kind == AK_CHAR16) x.i = (x.i > 0xFFFF) ? 0x20AC : x.i;
    }
    if (x.kind == AK_RAWBYTES) {
        // one half of a 2-byte character: valid only together with its neighbour
        // (v = 2, 3: the lead byte of a three- / four-byte character whose continuation bytes arrive as a pad run)
        x.s8 = a.v == 2 ? std::string("\xE2") : a.v == 3 ? std::string("\xF0") : (a.v & 1) ? std::string("\xA9") : std::string("\xC3");
        return x;
    }
    if (x.kind == AK_NESTED) { Scalars sc = source_text(p.data_seed, a.v, a.n % 20, p.text_mix); enc8(sc, x.s8); return x; }
    if (x.kind >= AK_CSTR && x.kind <= AK_U8SV) {
        Scalars sc = source_text(p.data_seed, a.v, a.n, p.text_mix);
        enc8(sc, x.s8); x.sw.assign(sc.begin(), sc.end()); enc16(sc, x.s16); x.s32 = sc;
        x.su8.assign((const char8_t *)x.s8.data(), x.s8.size());
        if (x.kind == AK_STSTRING) { simrt::SutScope s; x.st = ST::string::from_validated(x.s8.data(), x.s8.size()); }
    }
    return x;
}

static std::string build_format(const Plan &p) {
    std::string f;
    for (const Seg &g : p.segs) {
        switch (g.type) {
        case 0: { std::string t; enc8(source_text(p.data_seed, g.src + 1000, g.n, p.text_mix), t); f += t; break; }
        case 2: f += "{{"; break;
        case 3: f += "}}"; break;
        default: {
            f += '{';
            if (g.align == 1) f += '<'; else if (g.align == 2) f += '>';
            bool c = g.cls == 6;
            if (!c) { if (g.pad == 1) { f += '_'; f += (char)g.padch; } else if (g.pad == 2) f += '0'; }
            if (g.prefix) f += '#';
            if (g.plus) f += '+';
            static const char CLS[] = {0, 'x', 'X', 'd', 'o', 'b', 'c', 'f', 'e', 'E'};
            if (g.cls && g.cls < 10) f += CLS[g.cls];
            if (g.width && !c) f += std::to_string(g.width);
            if (g.prec >= 0) { f += '.'; f += std::to_string(g.prec); }
            if (g.index) { f += '&'; f += std::to_string(g.index); }
            f += '}';
        }
        }
    }
    return f;
}

// ------------------------------------------------------------------ sinks
struct Cookie { std::string data; unsigned calls = 0, fail_at = 0; bool failed = false; };
static ssize_t cookie_write(void *c, const char *buf, size_t n) {
    Cookie *k = (Cookie *)c; ++k->calls;
    if (k->fail_at && k->calls >= k->fail_at) { k->failed = true; return 0; }
    k->data.append(buf, n); return (ssize_t)n;
}
template <class Ch> struct RecBuf : std::basic_streambuf<Ch> {
    typedef std::basic_streambuf<Ch> B; typedef typename B::int_type int_type; typedef typename B::traits_type traits;
    std::basic_string<Ch> data; std::vector<Ch> area; unsigned ovf = 0, fail_at = 0; bool failed = false; bool split_surrogate = false;
    explicit RecBuf(size_t cap) : area(cap) { if (cap) this->setp(area.data(), area.data() + cap); }
    size_t pending() const { return this->pbase() ? (size_t)(this->pptr() - this->pbase()) : 0; }
    void flush_area() { if (this->pbase()) { data.append(this->pbase(), this->pptr()); this->setp(this->pbase(), this->epptr()); } }
    int_type overflow(int_type c) override {
        ++ovf;
        if (fail_at && ovf >= fail_at) { failed = true; return traits::eof(); }
        flush_area();
        if (sizeof(Ch) == 2 && !data.empty() && (unsigned)data.back() >= 0xD800 && (unsigned)data.back() <= 0xDBFF) split_surrogate = true;
        if (!traits::eq_int_type(c, traits::eof())) data.push_back(traits::to_char_type(c));
        return traits::not_eof(c);
    }
    int sync() override { flush_area(); return 0; }
};
struct SimReadFailure { };
template <class Ch> struct SrcBuf : std::basic_streambuf<Ch> {
    typedef std::basic_streambuf<Ch> B; typedef typename B::int_type int_type; typedef typename B::traits_type traits;
    std::basic_string<Ch> src; size_t next = 0, chunk = 1; unsigned refills = 0, fail_at = 0; bool failed = false; std::vector<size_t> cuts;
    SrcBuf(const std::basic_string<Ch> &s, size_t chunk_) : src(s), chunk(chunk_ ? chunk_ : 1) { }
    int_type underflow() override {
        if (this->gptr() < this->egptr()) return traits::to_int_type(*this->gptr());
        ++refills;
        if (fail_at && refills >= fail_at) { failed = true; throw SimReadFailure(); }
        if (next >= src.size()) return traits::eof();
        size_t n = std::min(chunk, src.size() - next);
        cuts.push_back(next);
        Ch *b = &src[next];
        this->setg(b, b, b + n); next += n;
        return traits::to_int_type(*this->gptr());
    }
    size_t consumed() const { return next - (size_t)(this->egptr() - this->gptr()); }
};

struct Chunk { bool is_char; std::string bytes; };
struct RecWriter : ST::format_writer {
    std::vector<Chunk> chunks;
    explicit RecWriter(const char *f) : ST::format_writer(f) { }
    RecWriter &append(const char *d, size_t n) override { chunks.push_back({false, std::string(d, n)}); return *this; }
    RecWriter &append_char(char ch, size_t count = 1) override { chunks.push_back({true, std::string(count, ch)}); return *this; }
};

enum Ex { X_NONE = 0, X_UNICODE, X_BADFMT, X_RANGE, X_INVARG, X_SIMREAD, X_IOSFAIL, X_BADALLOC, X_OTHER };
static const char *const EXN[] = {"none", "ST::unicode_error", "ST::bad_format", "std::out_of_range", "std::invalid_argument", "simulated read failure", "std::ios_base::failure", "std::bad_alloc", "other"};
// The surroundings of a call: a scope guard that reports through the library does so from its destructor, while the exception that ended the
// scope is still propagating (std::uncaught_exceptions() > 0).  What a sink receives must not depend on that.  The call's own exception, if any,
// is carried out of the destructor and rethrown once the unwinding is over.
static bool g_during_unwinding = false;
struct UnwindProbe { };
template <class F> static void during_unwinding(F &f) {
    std::exception_ptr own;
    struct Guard { F &f; std::exception_ptr &own; ~Guard() { try { f(); } catch (...) { own = std::current_exception(); } } };
    try { Guard g{f, own}; throw UnwindProbe(); } catch (const UnwindProbe &) { }
    if (own) std::rethrow_exception(own);
}
template <class F> static Ex guarded(uint64_t budget, Stats *st, F &&f) {
    Ex ex = X_NONE;
    simrt::heap_op_begin(0);
    simrt::clock_arm(budget);
    {
        simrt::SutScope s;
        try { if (g_during_unwinding) during_unwinding(f); else f(); }
        catch (const ST::unicode_error &) { ex = X_UNICODE; }
        catch (const ST::bad_format &) { ex = X_BADFMT; }
        catch (const std::out_of_range &) { ex = X_RANGE; }
        catch (const std::invalid_argument &) { ex = X_INVARG; }
        catch (const SimReadFailure &) { ex = X_SIMREAD; }
        catch (const std::ios_base::failure &) { ex = X_IOSFAIL; }
        catch (const std::bad_alloc &) { ex = X_BADALLOC; }
        catch (...) { ex = X_OTHER; }
    }
    uint64_t used = simrt::clock_disarm();
    if (st) st->steps += used;
    return ex;
}

template <class F> static void with_args(const std::vector<AnyArg> &a, F &&f) {
    switch (a.size()) {
    case 0: f(); break;
    case 1: f(a[0]); break;
    case 2: f(a[0], a[1]); break;
    case 3: f(a[0], a[1], a[2]); break;
    default: f(a[0], a[1], a[2], a[3]); break;
    }
}

static void set_viol(Viol &v, const char *cls, const std::string &site, const std::string &msg) { if (!v.set) { v.set = true; v.cls = cls; v.site = site; v.msg = msg; } }
static std::string hexs(const std::string &s, size_t max = 24) {
    std::string o; char b[4];
    for (size_t i = 0; i < s.size() && i < max; i++) { std::snprintf(b, sizeof b, "%02x", (unsigned char)s[i]); o += b; }
    if (s.size() > max) o += "..";
    return o;
}
template <class Ch> static std::string first_diff(const std::basic_string<Ch> &got, const std::basic_string<Ch> &want) {
    size_t k = 0; while (k < got.size() && k < want.size() && got[k] == want[k]) ++k;
    return "got " + std::to_string(got.size()) + " units, expected " + std::to_string(want.size()) + ", first difference at unit " + std::to_string(k);
}

static std::string shape_of(const Plan &p) {
    std::string s;
    for (const Seg &g : p.segs) {
        if (g.type == 0) s += g.n == 0 ? "l0" : g.n < 16 ? "l" : "L";
        else if (g.type == 2) s += "{{"; else if (g.type == 3) s += "}}";
        else { s += "{"; s += (char)('0' + g.align); s += (char)('0' + g.pad); s += (char)('a' + g.cls); s += g.width == 0 ? "w0" : g.width < 20 ? "w" : "W"; s += g.prec < 0 ? "" : "p"; s += g.index ? "&" : ""; s += "}"; }
    }
    s += "|";
    for (const ArgSpec &a : p.args) { s += std::to_string(a.kind); s += ','; }
    return s;
}

RunResult run_plan(const Plan &p, Stats *st, std::vector<uint64_t> *nontrivial_pairs);
uint64_t g_index = 0;

RunResult run_plan(const Plan &p, Stats *st) { return run_plan(p, st, nullptr); }

RunResult run_plan(const Plan &p, Stats *st, std::vector<uint64_t> *nt_pairs) {
    RunResult rr; Viol &V = rr.viol;
    simrt::heap_begin_run(simrt::HEAP_IMMEDIATE, 0xA5, 0xDD);
    {
    std::string fmt = build_format(p);
    // where the format string lives: half of the calls pass it in one long-lived array that every such call re-uses (the `char line[...]` a
    // program fills and hands on), the others in a string of their own.  Different text at the same address, call after call - and the address
    // does not depend on what else the process has allocated, so a history that needs it replays.
    static char g_format_line[16384];
    const char *fmt_text = fmt.c_str();
    if (((p.seed >> 7) & 1) && fmt.size() < sizeof g_format_line) { std::memcpy(g_format_line, fmt.c_str(), fmt.size() + 1); fmt_text = g_format_line; }
    std::vector<AnyArg> args;
    for (size_t i = 0; i < p.args.size() && i < 4; i++) args.push_back(make_arg(p, p.args[i]));
    size_t arg_bytes = 0; for (auto &a : args) arg_bytes += a.s8.size() * 4 + 64;
    uint32_t wsum = 0; for (const Seg &g : p.segs) wsum += g.width;
    const uint64_t budget = 400000ull + 4000ull * (fmt.size() + arg_bytes + wsum);
    std::string shape = shape_of(p);
    simrt::fatal_context("prop=C17 i=%llu runseed=%llu site=ST::format shape=%s", (unsigned long long)g_index, (unsigned long long)p.seed, shape.c_str());
    if (st) st->calls++;

    // reference: ST::format
    std::string R; bool accepted = false;
    Ex rex = guarded(budget, st, [&] { with_args(args, [&](const auto &...a) { ST::string r = ST::format(fmt_text, a...); R.assign(r.c_str(), r.size()); }); });
    accepted = rex == X_NONE;
    if (!accepted && st) st->rejected_by_format++;
    if (rex == X_BADALLOC || rex == X_OTHER || rex == X_SIMREAD || rex == X_IOSFAIL) set_viol(V, "unexpected_exception", "ST::format", std::string(EXN[rex]) + " from ST::format");
    Scalars Rsc; bool Rwf = accepted && dec8_strict(R, Rsc);
    // the chunk sequence the driver emits for this call (public format_writer extension point)
    std::vector<Chunk> chunks;
    Ex recex = guarded(budget, st, [&] { RecWriter w(fmt_text); with_args(args, [&](const auto &...a) { ST::apply_format(w, a...); }); chunks.swap(w.chunks); });
    // the bytes the driver emitted, whether or not they are UTF-8 (format_latin_1 takes every byte for a Latin-1 character: it has a defined result where ST::format rejects the call)
    std::string raw; const bool raw_ok = recex == X_NONE; if (raw_ok) for (const Chunk &ch : chunks) raw += ch.bytes;
    bool chunk_not_self_contained = false, has_padding = false, multi_unit = false;
    for (const Chunk &c : chunks) { Scalars t; if (!dec8_strict(c.bytes, t)) chunk_not_self_contained = true; if (c.is_char && c.bytes.size() > 1) has_padding = true; }
    for (unsigned char ch : R) if (ch >= 0x80) multi_unit = true;
    if (chunk_not_self_contained && st) st->probe[PC_KNOWN_SPLIT_CHUNK]++;
    // positions (in bytes of R) covered by padding runs, for the probe "overflow inside a padding run"
    std::vector<std::pair<size_t, size_t>> pad_runs; { size_t pos = 0; for (const Chunk &c : chunks) { if (c.is_char && c.bytes.size() > 1) pad_runs.push_back({pos, pos + c.bytes.size()}); pos += c.bytes.size(); } }

    simrt::Hash H; H.str(shape.c_str());
    for (const SinkCfg &k : p.sinks) {
        if (V.set) break;
        std::string site = sink_name(k.kind);
        simrt::fatal_context("prop=C17 i=%llu runseed=%llu site=%s shape=%s", (unsigned long long)g_index, (unsigned long long)p.seed, site.c_str(), shape.c_str());
        if (st) { st->pairs++; st->per_sink[k.kind % SK__COUNT]++; if (k.fault) st->sink_faults_planned++; if (k.ctx == 1) st->probe[PC_CALL_DURING_UNWINDING]++; }
        rr.pairs++;
        struct CtxScope { CtxScope(bool on) { g_during_unwinding = on; } ~CtxScope() { g_during_unwinding = false; } } ctx_scope(k.ctx == 1);
        bool flushed_inside = false, fault_fired = false;
        unsigned capclass = 0;
        switch (k.kind % SK__COUNT) {
        case SK_COOKIE: case SK_STDOUT: {
            const bool to_stdout = (k.kind % SK__COUNT) == SK_STDOUT;      // ST::printf(fmt, ...) with the process's stdout redirected to the cookie
            Cookie ck; ck.fail_at = k.fault;
            cookie_io_functions_t io = {nullptr, cookie_write, nullptr, nullptr};
            FILE *f = fopencookie(&ck, "w", io);
            size_t bsz = std::max<uint32_t>(1, k.b); std::vector<char> ubuf(bsz);
            const unsigned bm = (k.a & 15) % 3, hist = (k.a >> 4) & 7;
            int mode = bm == 0 ? _IONBF : bm == 1 ? _IOLBF : _IOFBF;
            setvbuf(f, mode == _IONBF ? nullptr : ubuf.data(), mode, mode == _IONBF ? 0 : bsz);
            capclass = mode == _IONBF ? 0 : bsz <= 8 ? 1 : bsz <= 64 ? 2 : 3;
            unsigned calls_inside = 0;
            FILE *saved_stdout = stdout;
            if (to_stdout) { fflush(stdout); stdout = f; }
            // the sink's earlier history (seeded): a stale error indicator on a stream that is still perfectly writable (an attempted read on
            // this write-only stream sets it), or an earlier call on the same FILE* that threw half-way (missing argument) and was caught
            if (hist == 6) { (void)fgetc(f); if (st) st->probe[PC_FILE_STALE_ERROR]++; }
            bool earlier_threw = false;
            if (hist == 7 && !k.fault) {
                guarded(budget, st, [&] { try { if (to_stdout) ST::printf("{>4}|{}", 7); else ST::printf(f, "{>4}|{}", 7); } catch (const std::out_of_range &) { earlier_threw = true; } });
                fflush(f); ck.data.clear(); ck.calls = 0;
                if (st && earlier_threw) st->probe[PC_FILE_EARLIER_CALL_THREW]++;
            }
            Ex ex = guarded(budget, st, [&] { with_args(args, [&](const auto &...a) { if (to_stdout) ST::printf(fmt_text, a...); else ST::printf(f, fmt_text, a...); }); calls_inside = ck.calls; });
            if (to_stdout) stdout = saved_stdout;
            if (earlier_threw || ex != X_NONE || (k.a >> 7) % 16 == 0) {
                // whoever uses the FILE* next may be another thread: the stream must not be left locked by this one
                bool free_for_others = false;
                std::thread other([&] { if (ftrylockfile(f) == 0) { free_for_others = true; funlockfile(f); } });
                other.join();
                if (!free_for_others) { set_viol(V, "sink_bytes_differ", site, "the FILE* is still locked by the calling thread after ST::printf returned (or threw): the next call from any other thread blocks for ever and writes nothing"); fclose(f); break; }
            }
            fflush(f); fclose(f);
            flushed_inside = calls_inside > 0; fault_fired = ck.failed;
            if (!accepted) break;
            if (ex != X_NONE) { set_viol(V, "sink_bytes_differ", site, std::string("ST::printf threw ") + EXN[ex] + " for a call ST::format accepts"); break; }
            if (!ck.failed) { if (ck.data != R) set_viol(V, "sink_bytes_differ", site, "FILE* sink " + first_diff(ck.data, R) + " (ST::format gives " + hexs(R) + ")"); }
            else if (R.compare(0, ck.data.size(), ck.data) != 0 || ck.data.size() > R.size()) set_viol(V, "sink_prefix_violated", site, "bytes accepted before the sink failed are not a prefix of the fault-free output");
            if (flushed_inside && st) for (auto &pr : pad_runs) { (void)pr; }
            break;
        }
        case SK_LATIN1: {
            std::string got;
            Ex ex = guarded(budget, st, [&] { with_args(args, [&](const auto &...a) { ST::string r = ST::format_latin_1(fmt_text, a...); got.assign(r.c_str(), r.size()); }); });
            if (!accepted && !(rex == X_UNICODE && raw_ok)) break;
            const std::string want = latin1_ref(accepted ? R : raw);
            if (ex != X_NONE) { set_viol(V, "latin1_differs", site, std::string("ST::format_latin_1 threw ") + EXN[ex]); break; }
            if (got != want) set_viol(V, "latin1_differs", site, "format_latin_1 " + first_diff(got, want));
            break;
        }
        case SK_FORMAT_V: {     // the other spellings of the in-memory sink: format(validation, ...), "..."_stfmt(...)
            std::string got; const unsigned which = k.a % 4;
            Ex ex = guarded(budget, st, [&] { with_args(args, [&](const auto &...a) {
                using namespace ST::literals;
                ST::string r = which == 0 ? ST::format(ST::check_validity, fmt_text, a...) : which == 1 ? ST::format(ST::substitute_invalid, fmt_text, a...)
                             : which == 2 ? ST::format(ST::assume_valid, fmt_text, a...) : operator"" _stfmt(fmt_text, fmt.size())(a...);
                got.assign(r.c_str(), r.size()); }); });
            if (!accepted || !Rwf) break;       // (for output that is not strictly well-formed the modes legitimately differ)
            if (ex != X_NONE) { set_viol(V, "sink_bytes_differ", site, std::string("this spelling of the call threw ") + EXN[ex] + " for a call ST::format accepts"); break; }
            if (got != R) set_viol(V, "sink_bytes_differ", site, "result " + first_diff(got, R));
            break;
        }
        case SK_OS8: case SK_OSW: case SK_OS16: case SK_OS32: {
            size_t cap = k.a % 65; capclass = cap == 0 ? 0 : cap <= 4 ? 1 : cap <= 16 ? 2 : 3;
            auto run_os = [&](auto chtag, const auto &expect) {
                typedef decltype(chtag) Ch;
                RecBuf<Ch> rb(cap); rb.fail_at = k.fault;
                std::basic_ostream<Ch> os(&rb);
                if (k.b & 1) os.exceptions(std::ios_base::badbit);
                // formatting state left on the stream by its owner: writef emits its output unformatted, so a pending field width or fill must not show
                if (((k.b >> 1) & 7) == 7) { os.width(1 + (std::streamsize)(k.a % 40)); if constexpr (std::is_same_v<Ch, char> || std::is_same_v<Ch, wchar_t>) os.fill(Ch('#'));      /* (fill() needs a ctype facet, which libstdc++ lacks for char16_t / char32_t) */ os.setf((k.b & 16) ? std::ios_base::left : std::ios_base::right, std::ios_base::adjustfield); if (st) st->probe[PC_OSTREAM_PENDING_WIDTH]++; }
                // a unit-buffered stream (std::cerr is one) hands everything to its device before an output operation returns
                const bool unitbuf = ((k.b >> 5) & 1) != 0; if (unitbuf) os.setf(std::ios_base::unitbuf);
                unsigned ovf_inside = 0;
                Ex ex = guarded(budget, st, [&] { with_args(args, [&](const auto &...a) { ST::writef(os, fmt_text, a...); }); ovf_inside = rb.ovf; });
                const size_t held_back = rb.pending();
                // (not while another exception is propagating: the standard's own sentry skips that flush when uncaught_exception() is true)
                if (unitbuf && k.ctx != 1 && accepted && ex == X_NONE && !rb.failed && held_back) { set_viol(V, "sink_bytes_differ", site, "unit-buffered stream: " + std::to_string(held_back) + " unit(s) of the output are still in the put area when writef returns"); return; }
                rb.flush_area();
                flushed_inside = ovf_inside > 0; fault_fired = rb.failed;
                if (rb.split_surrogate && st) st->probe[PC_OVERFLOW_BETWEEN_SURROGATES]++;
                if (sizeof(Ch) == 1 && ovf_inside && st && cap) {      // overflow k happens when the output reaches a multiple of cap
                    for (auto &pr : pad_runs) { size_t m = (pr.first / cap + 1) * cap; if (m > pr.first && m < pr.second) { st->probe[PC_OVERFLOW_IN_PADDING]++; break; } }
                } else if (sizeof(Ch) == 1 && ovf_inside && st && !pad_runs.empty()) st->probe[PC_OVERFLOW_IN_PADDING]++;
                if (!accepted) return;
                const bool wide = sizeof(Ch) > 1;
                if (rb.failed) {
                    if (ex != X_NONE && ex != X_IOSFAIL && !(wide && ex == X_UNICODE && chunk_not_self_contained)) set_viol(V, "sink_bytes_differ", site, std::string("unexpected ") + EXN[ex] + " after the sink failed");
                    else if (expect.compare(0, rb.data.size(), rb.data) != 0 || rb.data.size() > expect.size()) set_viol(V, "sink_prefix_violated", site, "units accepted before the sink failed are not a prefix of the fault-free output");
                    return;
                }
                if (ex == X_UNICODE && wide && chunk_not_self_contained) { set_viol(V, "wide_writef_chunk_not_self_contained", site, "writef to a wide stream threw ST::unicode_error on a chunk that is not well-formed on its own although the whole output is (ST::format accepts the call)"); return; }
                if (ex != X_NONE) { set_viol(V, wide ? "wide_transcoding_differs" : "sink_bytes_differ", site, std::string("ST::writef threw ") + EXN[ex] + " for a call ST::format accepts"); return; }
                if (rb.data != expect) {
                    if (wide && chunk_not_self_contained) set_viol(V, "wide_writef_chunk_not_self_contained", site, "wide stream contents differ from the transcoding of the ST::format result for a call whose chunks are not individually well-formed");
                    else set_viol(V, wide ? "wide_transcoding_differs" : "sink_bytes_differ", site, "stream " + first_diff(rb.data, expect));
                }
            };
            if (accepted && !Rwf && (k.kind % SK__COUNT) != SK_OS8) { /* reference transcoding undefined for non-strict output */ break; }
            std::wstring ew(Rsc.begin(), Rsc.end()); std::u16string e16; enc16(Rsc, e16);
            // libstdc++'s char_traits<char16_t>::eof() is 0xFFFF: a char16_t stream cannot carry U+FFFF at all (put() reports failure),
            // so calls whose output contains that noncharacter are not judged on char16_t sinks
            if ((k.kind % SK__COUNT) == SK_OS16 && e16.find(char16_t(0xFFFF)) != std::u16string::npos) { if (st) st->probe[PC_SKIPPED_U16_EOF]++; break; }
            switch (k.kind % SK__COUNT) {
            case SK_OS8: run_os(char(), R); break;
            case SK_OSW: run_os(wchar_t(), ew); break;
            case SK_OS16: run_os(char16_t(), e16); break;
            default: run_os(char32_t(), Rsc); break;
            }
            break;
        }
        case SK_INS8: case SK_INSW: case SK_INS16: case SK_INS32: {
            if (!accepted || !Rwf) break;
            size_t cap = k.a % 65; capclass = cap == 0 ? 0 : cap <= 4 ? 1 : cap <= 16 ? 2 : 3;
            ST::string s; { simrt::SutScope sc; s = ST::string::from_validated(R.data(), R.size()); }
            auto run_ins = [&](auto chtag, const auto &expect) {
                typedef decltype(chtag) Ch;
                RecBuf<Ch> rb(cap); rb.fail_at = k.fault;
                std::basic_ostream<Ch> os(&rb);
                // a field width / fill / adjustment left pending on the stream: the statement says "writes exactly its contents", the standard strings
                // pad to the width - either reading is accepted, anything else (e.g. a wrong number of fill characters) is not
                std::streamsize fw = 0; std::basic_string<Ch> padded;
                if constexpr (std::is_same_v<Ch, char> || std::is_same_v<Ch, wchar_t>) if (((k.b >> 1) & 7) == 7 && !k.fault) {
                    fw = 1 + (std::streamsize)(k.a % 40);
                    RecBuf<Ch> rb2(cap); std::basic_ostream<Ch> os2(&rb2);
                    for (std::basic_ostream<Ch> *o : {&os, &os2}) {
                        o->width(fw); o->fill(Ch('#'));
                        switch ((k.b >> 4) & 3) {       // adjustfield as programs leave it: one bit, or - after setf(left) on top of std::right - two
                        case 0: o->setf(std::ios_base::right, std::ios_base::adjustfield); break;
                        case 1: o->setf(std::ios_base::left, std::ios_base::adjustfield); break;
                        case 2: o->setf(std::ios_base::internal, std::ios_base::adjustfield); break;
                        default: o->setf(std::ios_base::right, std::ios_base::adjustfield); o->setf(std::ios_base::left); break;
                        }
                    }
                    os2 << std::basic_string<Ch>(expect.begin(), expect.end()); rb2.flush_area(); padded = rb2.data;
                    if (st) st->probe[PC_OSTREAM_PENDING_WIDTH]++;
                }
                unsigned ovf_inside = 0;
                Ex ex = guarded(budget, st, [&] { os << s; ovf_inside = rb.ovf; });
                rb.flush_area();
                flushed_inside = ovf_inside > 0; fault_fired = rb.failed;
                if (rb.failed) { if (expect.compare(0, rb.data.size(), rb.data) != 0 || rb.data.size() > expect.size()) set_viol(V, "sink_prefix_violated", site, "units accepted before the sink failed are not a prefix of the string"); return; }
                if (ex != X_NONE) { set_viol(V, "insertion_differs", site, std::string("operator<< threw ") + EXN[ex]); return; }
                if (fw) { if (rb.data != expect && rb.data != padded) set_viol(V, "insertion_differs", site, "with a pending field width the stream got neither the string's contents nor what a std::basic_string insertion writes: " + first_diff(rb.data, padded)); return; }
                if (rb.data != expect) set_viol(V, "insertion_differs", site, "stream " + first_diff(rb.data, expect));
            };
            std::wstring ew(Rsc.begin(), Rsc.end()); std::u16string e16; enc16(Rsc, e16);
            if ((k.kind % SK__COUNT) == SK_INS16 && e16.find(char16_t(0xFFFF)) != std::u16string::npos) { if (st) st->probe[PC_SKIPPED_U16_EOF]++; { simrt::SutScope sc; s = ST::string(); } break; }
            switch (k.kind % SK__COUNT) {
            case SK_INS8: run_ins(char(), R); break;
            case SK_INSW: run_ins(wchar_t(), ew); break;
            case SK_INS16: run_ins(char16_t(), e16); break;
            default: run_ins(char32_t(), Rsc); break;
            }
            { simrt::SutScope sc; s = ST::string(); }
            break;
        }
        default: {     // SK_EXT8 / SK_EXTW: extraction compared with std::basic_string extraction on an identically behaving source
            if (!accepted || !Rwf) break;
            bool wide = (k.kind % SK__COUNT) == SK_EXTW;
            size_t chunk = 1 + k.a % 16; capclass = chunk == 1 ? 0 : chunk <= 4 ? 1 : 2;
            bool exc = k.b & 1, corrupt = (k.b & 2) && !wide;
            std::string src8 = R;
            if (corrupt && !src8.empty()) { src8[(k.b >> 2) % src8.size()] = (char)0xFE; if (st) st->fault_kinds[3]++; }
            std::wstring srcw(Rsc.begin(), Rsc.end());
            unsigned rounds = 1 + ((k.b >> 12) & 1);
            auto run_ext = [&](auto chtag, const auto &src) {
                typedef decltype(chtag) Ch;
                SrcBuf<Ch> a(src, chunk), b(src, chunk); a.fail_at = b.fail_at = k.fault;
                std::basic_istream<Ch> ia(&a), ib(&b);
                if (exc) { ia.exceptions(std::ios_base::badbit); ib.exceptions(std::ios_base::badbit); }
                // the same formatting state on both streams: a field width (limits the token, reset by the extraction) and skipws off
                const unsigned wsel = (k.b >> 13) & 7; const std::streamsize fw = wsel < 5 ? 0 : wsel == 5 ? 1 : wsel == 6 ? 3 : 1 + (std::streamsize)(k.a % 12);
                if (((k.b >> 16) & 7) == 7) { ia.unsetf(std::ios_base::skipws); ib.unsetf(std::ios_base::skipws); }
                // a locale imbued in the stream by its owner decides what separates tokens (here: ',' and ';' are white space too)
                if constexpr (std::is_same_v<Ch, char>) if (((k.b >> 16) & 7) == 6) { std::locale csv(std::locale::classic(), new CsvCtype()); ia.imbue(csv); ib.imbue(csv); if (st) st->probe[PC_EXTRACT_IMBUED_LOCALE]++; }
                ST::string target; { simrt::SutScope sc; target = ST::string::from_validated("previous", 8); }
                for (unsigned round = 0; round < rounds && !V.set; round++) {
                    std::basic_string<Ch> tok; Ex exa = X_NONE;
                    if (fw) { ia.width(fw); ib.width(fw); if (st) st->probe[PC_EXTRACT_WITH_WIDTH]++; }
                    try { ia >> tok; } catch (const SimReadFailure &) { exa = X_SIMREAD; } catch (const std::ios_base::failure &) { exa = X_IOSFAIL; }
                    if (round) { simrt::SutScope sc; target = ST::string::from_validated("previous value, second round", 28); }    // a stale token cannot pass for "untouched"
                    std::string before(target.c_str(), target.size());
                    Ex exb = guarded(budget, st, [&] { ib >> target; });
                    std::string got(target.c_str(), target.size());
                    std::string want; bool tok_wf;
                    if (sizeof(Ch) == 1) { want.assign((const char *)tok.data(), tok.size()); Scalars t; tok_wf = dec8_strict(want, t); }
                    else { Scalars t(tok.begin(), tok.end()); enc8(t, want); tok_wf = true; }
                    fault_fired = a.failed || b.failed;
                    if (a.next >= src.size() && a.consumed() == src.size() && !tok.empty() && st) st->probe[PC_EOF_AT_TOKEN_END]++;
                    if (sizeof(Ch) == 1 && st) for (size_t cpos : a.cuts) if (cpos < src.size() && ((unsigned char)src[cpos] & 0xC0) == 0x80) { st->probe[PC_REFILL_INSIDE_CHAR]++; break; }
                    if (exb == X_UNICODE) {
                        if (st) st->probe[PC_TOKEN_REJECTED]++;
                        if (tok_wf) { set_viol(V, "extraction_differs", site, "extraction rejected a well-formed token with ST::unicode_error"); break; }
                        if (got != before) { set_viol(V, "extraction_differs", site, "the target string changed although extraction threw ST::unicode_error"); break; }
                    } else {
                        if (exb != exa) { set_viol(V, "extraction_differs", site, std::string("ST::string extraction ended with ") + EXN[exb] + ", std::basic_string extraction with " + EXN[exa]); break; }
                        // when no token could be extracted a std::basic_string target is either erased or (sentry failed) left untouched:
                        // both outcomes are accepted for the ST::string target
                        const bool no_token = tok.empty() && ia.fail();
                        if (exb == X_NONE && got != want && !(no_token && got == before)) { set_viol(V, "extraction_differs", site, "extracted token " + first_diff(got, want)); break; }
                    }
                    if (ia.rdstate() != ib.rdstate()) { set_viol(V, "extraction_differs", site, "stream state bits differ from those after a std::basic_string extraction"); break; }
                    if (a.consumed() != b.consumed()) { set_viol(V, "extraction_differs", site, "units left unread differ from a std::basic_string extraction"); break; }
                    if (ia.width() != ib.width()) { set_viol(V, "extraction_differs", site, "the stream's field width after the extraction differs from that after a std::basic_string extraction"); break; }
                    if (exb != X_NONE) break;
                }
                { simrt::SutScope sc; target = ST::string(); }
                flushed_inside = a.refills > 1;
            };
            if (wide) run_ext(wchar_t(), srcw); else run_ext(char(), src8);
            break;
        }
        }
        if (fault_fired && st) { st->sink_faults_fired++; unsigned kk = k.kind % SK__COUNT; st->fault_kinds[(kk == SK_COOKIE || kk == SK_STDOUT) ? 0 : (kk == SK_EXT8 || kk == SK_EXTW) ? 2 : 1]++; }
        if (flushed_inside && st) st->probe[PC_FLUSH_INSIDE_CALL]++;
        simrt::Hash ph; ph.str(shape.c_str()); ph.u8(k.kind); ph.u8((uint8_t)capclass); ph.u8(k.fault ? 1 : 0);
        H.u64(ph.h);
        bool nt = accepted && (has_padding || multi_unit) && flushed_inside;
        if (nt) { rr.nontrivial = true; if (nt_pairs) nt_pairs->push_back(ph.h); }
    }
    rr.sig = H.h;
    { simrt::SutScope s; args.clear(); }
    }
    size_t live = simrt::heap_end_run();
    char d[200];
    simrt::HeapViolation hv = simrt::heap_take_violation(d, sizeof d);
    if (!V.set && hv != simrt::HV_NONE) set_viol(V, hv == simrt::HV_DOUBLE_FREE ? "double_free" : hv == simrt::HV_INVALID_FREE ? "invalid_free" : hv == simrt::HV_OVERRUN ? "out_of_bounds_write" : "form_mismatch", "heap", d);
    (void)live;
    return rr;
}

// ------------------------------------------------------------------ generator
Plan gen_plan(uint64_t runseed) {
    Plan p; Rng r; r.seed(runseed);
    p.seed = runseed; p.data_seed = r.next(); p.text_mix = r.below(4);
    bool split_class = r.below(40) == 0;           // low-rate class: a character split across two chunks
    unsigned nargs = r.below(5);
    const bool many = r.below(20) == 0;            // low-rate class: many arguments and many segments in one call
    if (many) nargs = 5 + r.below(8);
    if (split_class && r.below(3) == 0) {
        // ... or a character completed by a *pad run*: "{<3_\x82}" of "\xE2" is U+2082, "{<4_\x9F}" of "\xF0" is U+1F7DF - two or three pad bytes
        // that are not ASCII in a call ST::format accepts
        const bool four = r.below(2);
        Seg f; f.type = 1; f.align = 1; f.pad = 1; f.padch = four ? 0x9F : 0x82; f.width = four ? 4 : 3; p.segs.push_back(f);
        ArgSpec a; a.kind = AK_RAWBYTES; a.v = four ? 3 : 2; p.args.push_back(a);
        if (r.below(2)) { Seg l; l.type = 0; l.src = r.below(1000); l.n = 1 + r.below(6); p.segs.insert(p.segs.begin(), l); }
    } else if (split_class) {
        Seg f; f.type = 1; p.segs.push_back(f); p.segs.push_back(f);
        ArgSpec a; a.kind = AK_RAWBYTES; a.v = 0; p.args.push_back(a); a.v = 1; p.args.push_back(a);
        if (r.below(2)) { Seg l; l.type = 0; l.src = r.below(1000); l.n = 1 + r.below(6); p.segs.insert(p.segs.begin(), l); }
    } else {
        static const uint8_t KINDS[] = {AK_SCHAR, AK_UCHAR, AK_SHORT, AK_USHORT, AK_INT, AK_INT, AK_UINT, AK_LONG, AK_ULONG, AK_LLONG, AK_ULLONG, AK_BOOL, AK_CHAR, AK_WCHAR, AK_CHAR16,
                                        AK_CHAR32, AK_CHAR8, AK_FLOAT, AK_DOUBLE, AK_DOUBLE, AK_COMPLEX, AK_CSTR, AK_CSTR, AK_WCSTR, AK_C16STR, AK_C32STR, AK_C8STR, AK_STSTRING, AK_STSTRING,
                                        AK_STDSTRING, AK_WSTRING, AK_U16STRING, AK_U32STRING, AK_U8STRING, AK_SV, AK_WSV, AK_U16SV, AK_U32SV, AK_U8SV, AK_NULLCSTR, AK_NESTED};
        for (unsigned i = 0; i < nargs; i++) {
            ArgSpec a; a.kind = KINDS[r.below(sizeof KINDS)]; a.v = r.below(1 << 16);
            static const uint32_t LEN[] = {0, 1, 3, 5, 15, 16, 17, 40, 300};
            a.n = LEN[r.below(9)];
            if (r.below(30) == 0) a.n = r.below(2) ? 1100 : 5000;      // rare: text of several kilobytes
            p.args.push_back(a);
        }
        unsigned nseg = 1 + r.below(8), seq = 0;
        if (many) nseg = 9 + r.below(24);
        for (unsigned i = 0; i < nseg; i++) {
            Seg g; unsigned w = r.below(10);
            if (w < 4) { g.type = 0; g.src = r.below(1000); g.n = r.below(10) ? r.below(12) : 200 + r.below(200); if (r.below(40) == 0) g.n = 1000 + r.below(4000); }
            else if (w == 4) g.type = 2 + r.below(2);
            else {
                g.type = 1;
                g.align = r.below(3); g.pad = r.below(3); g.padch = (uint8_t)(0x21 + r.below(0x5E)); if (g.padch == '{' || g.padch == '}') g.padch = '*';
                if (r.below(12) == 0) g.padch = (uint8_t)(0x80 + r.below(0x80));      // a pad byte that is not ASCII (ST::format usually rejects the result)
                g.prefix = r.below(4) == 0; g.plus = r.below(4) == 0;
                g.cls = r.below(2) ? 0 : 1 + r.below(9);
                static const uint32_t WD[] = {0, 0, 1, 2, 5, 8, 12, 20, 40, 300};
                g.width = WD[r.below(10)];
                g.prec = r.below(3) ? -1 : (int32_t)r.below(13);
                if (r.below(40) == 0) g.width = 1000 + r.below(4000);                   // rare: padding of several kilobytes
                if (r.below(40) == 0) { static const int32_t PB[] = {40, 300, 1000}; g.prec = PB[r.below(3)]; }
                if (nargs && r.below(4) == 0) g.index = 1 + r.below(nargs);
                if (g.cls == 6) { g.width = 0; g.pad = 0; }         // documented precondition: no padding on a character field
                if (!g.index) ++seq;
            }
            p.segs.push_back(g);
        }
        // a precision beyond 12 is for text only: the numeric formatter's 64-byte block is a documented limit ("Format buffer too small")
        { unsigned nseq = 0;
          for (Seg &g : p.segs) if (g.type == 1) {
              unsigned ai = g.index ? g.index - 1 : nseq++;
              bool fl = ai < p.args.size() && (p.args[ai].kind == AK_FLOAT || p.args[ai].kind == AK_DOUBLE || p.args[ai].kind == AK_COMPLEX);
              if (g.prec > 12 && (fl || ai >= p.args.size())) g.prec = 12;
          } }
        // keep most calls inside the accepted domain: drop surplus sequential fields
        if (seq > nargs && r.below(8)) {
            unsigned extra = seq - nargs;
            for (size_t i = p.segs.size(); i-- > 0 && extra;) if (p.segs[i].type == 1 && !p.segs[i].index) { p.segs.erase(p.segs.begin() + i); --extra; }
            if (p.segs.empty()) { Seg l; l.type = 0; l.n = 3; p.segs.push_back(l); }
        }
    }
    // sinks: the same call against several sinks and several configurations of each
    bool faults = r.below(3) == 0;                  // fault-free and faulted configurations are separate runs
    static const uint32_t BUFS[] = {1, 2, 3, 7, 8, 64, 1, 2, 4096, 100};
    unsigned nsink = 4 + r.below(6);
    for (unsigned i = 0; i < nsink; i++) {
        SinkCfg k; k.kind = (uint8_t)r.below(SK__COUNT);
        switch (k.kind) {
        case SK_COOKIE: case SK_STDOUT: k.a = r.below(3) | (r.below(8) << 4) | (r.below(16) << 7); k.b = r.below(4) ? BUFS[r.below(10)] : 1 + r.below(4096); break;
        case SK_EXT8: case SK_EXTW: k.a = r.below(16); k.b = r.below(1 << 19); if (!faults) k.b &= ~2u; break;
        default: k.a = r.below(4) ? r.below(9) : r.below(65); k.b = r.below(1 << 6); break;
        }
        if (faults && r.below(2)) k.fault = 1 + r.below(r.below(3) ? 4 : 40);
        p.sinks.push_back(k);
    }
    // a rare class of its own (one call in 64, drawn from a generator of its own): a format string of several hundred bytes whose output is a handful -
    // "{&1}" of an empty text fifty-five to a hundred and thirty-five times, a literal of at most two characters, a small integer
    { Rng lr; lr.seed(simrt::mix(runseed, 0x6c6f6e67, 1));
      if (lr.below(64) == 0) {
          p.segs.clear(); p.args.clear();
          ArgSpec e; e.kind = AK_CSTR; e.v = lr.below(1 << 16); e.n = 0; p.args.push_back(e);
          ArgSpec i; i.kind = AK_INT; i.v = lr.below(1 << 16); i.n = 0; p.args.push_back(i);
          for (unsigned k = 55 + lr.below(80); k-- > 0;) { Seg g; g.type = 1; g.index = 1; p.segs.push_back(g); }
          Seg l; l.type = 0; l.src = lr.below(1000); l.n = lr.below(3); p.segs.push_back(l);
          Seg g; g.type = 1; g.index = 2; p.segs.push_back(g);
      } }
    // the surroundings of the calls (a generator of its own: the plans of earlier versions are unchanged): one sink in eight is used from a destructor during unwinding
    { Rng u; u.seed(simrt::mix(runseed, 0x756e77, 1)); for (SinkCfg &k : p.sinks) if (u.below(8) == 0) k.ctx = 1; }
    return p;
}

} // namespace C
