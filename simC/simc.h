// Engine C — sink simulator (C17): one format call executed against every output sink under seeded sink
// behaviour (buffer mode/size, put-area capacity, refill size, sink failure), compared with ST::format.
#pragma once
#include "../simrt/simrt.h"

#include <string_theory/string>
#include <string_theory/string_stream>
#include <string_theory/format>
#include <string_theory/stdio>
#include <string_theory/iostream>

#include <complex>
#include <string>
#include <vector>

namespace C {

using simrt::Rng;

// ------------------------------------------------------------------ the call: format string segments + arguments
enum ArgKind : uint8_t {
    AK_SCHAR = 0, AK_UCHAR, AK_SHORT, AK_USHORT, AK_INT, AK_UINT, AK_LONG, AK_ULONG, AK_LLONG, AK_ULLONG,
    AK_BOOL, AK_CHAR, AK_WCHAR, AK_CHAR16, AK_CHAR32, AK_CHAR8, AK_FLOAT, AK_DOUBLE, AK_COMPLEX,
    AK_CSTR, AK_WCSTR, AK_C16STR, AK_C32STR, AK_C8STR, AK_STSTRING, AK_STDSTRING, AK_WSTRING, AK_U16STRING, AK_U32STRING, AK_U8STRING,
    AK_SV, AK_WSV, AK_U16SV, AK_U32SV, AK_U8SV, AK_NULLCSTR, AK_RAWBYTES, AK_NESTED, AK__COUNT
};
const char *arg_kind_name(int k);

struct ArgSpec {            // plan-level description of one argument
    uint8_t kind = AK_INT;
    uint32_t v = 0;         // index into the value table / data-source selector
    uint32_t n = 0;         // text length in units (text kinds)
};
struct Seg {                // one segment of the format string
    uint8_t type = 0;       // 0 literal, 1 field, 2 "{{", 3 "}}"
    uint32_t src = 0, n = 0;                 // literal: data source and scalar count
    // field:
    uint8_t align = 0;      // 0 none 1 '<' 2 '>'
    uint8_t pad = 0;        // 0 none, 1 "_c" with padch, 2 '0'
    uint8_t padch = '*';
    uint8_t prefix = 0, plus = 0;
    uint8_t cls = 0;        // 0 none; x X d o b c f e E
    uint32_t width = 0;
    int32_t prec = -1;
    uint32_t index = 0;     // &N (0 = sequential)
};
enum SinkKind : uint8_t { SK_COOKIE = 0, SK_OS8, SK_OSW, SK_OS16, SK_OS32, SK_INS8, SK_INSW, SK_INS16, SK_INS32, SK_EXT8, SK_EXTW, SK_LATIN1, SK_STDOUT, SK_FORMAT_V, SK__COUNT };
const char *sink_name(int k);
struct SinkCfg {
    uint8_t kind = SK_COOKIE;
    uint32_t a = 0;         // cookie: buffering mode; ostream: put-area capacity; istream: units per refill
    uint32_t b = 0;         // cookie: buffer size;   ostream: exceptions(badbit) flag; istream: bit0 exceptions flag, bit1 corrupt the source, rest: second extraction
    uint32_t fault = 0;     // 0 none; k: the k-th sink call (cookie write / overflow / underflow) starts failing
    uint32_t ctx = 0;       // 1: the calls on this sink are made from a destructor while another exception is propagating (a scope guard that reports)
};
struct Plan {
    uint64_t seed = 0, data_seed = 1;
    uint32_t text_mix = 3;
    std::vector<Seg> segs;
    std::vector<ArgSpec> args;
    std::vector<SinkCfg> sinks;
};
std::string plan_to_text(const Plan &p);
bool plan_from_text(const std::string &t, Plan &p, std::string &err);
Plan gen_plan(uint64_t runseed);

struct Viol { bool set = false; std::string cls, site, msg; };
struct Stats {
    uint64_t calls = 0, pairs = 0, rejected_by_format = 0, steps = 0;
    uint64_t sink_faults_planned = 0, sink_faults_fired = 0;
    uint64_t per_sink[SK__COUNT] = {0};
    uint64_t fault_kinds[4] = {0};         // cookie write failure, ostream overflow failure, istream read failure, corrupted source token
    uint64_t probe[16] = {0};
};
enum Probe { PC_OVERFLOW_IN_PADDING = 0, PC_OVERFLOW_BETWEEN_SURROGATES, PC_EOF_AT_TOKEN_END, PC_REFILL_INSIDE_CHAR, PC_FLUSH_INSIDE_CALL, PC_KNOWN_SPLIT_CHUNK, PC_TOKEN_REJECTED, PC_SKIPPED_U16_EOF, PC_EXTRACT_WITH_WIDTH, PC_FILE_STALE_ERROR, PC_FILE_EARLIER_CALL_THREW, PC_OSTREAM_PENDING_WIDTH, PC_EXTRACT_IMBUED_LOCALE, PC_CALL_DURING_UNWINDING, PC__COUNT };
const char *probe_name(int i);

struct RunResult { Viol viol; uint64_t sig = 0; bool nontrivial = false; uint64_t pairs = 0; };
RunResult run_plan(const Plan &p, Stats *st);
extern uint64_t g_index;        // index of the run being executed (goes into FATAL lines)

} // namespace C
