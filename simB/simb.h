// Engine B — seeded scheduler + race detector for C20: shared declarations.
#pragma once
#include "../simrt/simrt.h"
#include "rt.h"
#include <cstring>
#include <string>
#include <vector>

namespace B {

struct BOp { uint16_t kind = 0; uint32_t a = 0, b = 0, c = 0; uint32_t fault = 0; };      // fault k > 0: the k-th allocation library code attempts inside this operation throws

struct Plan {
    uint64_t seed = 0, pool_seed = 1, sched_seed = 1;
    uint32_t mean_gap = 100, max_preemptions = 32;      // seeded schedule; mean_gap 0 = serial orders only
    uint32_t locale = 0;                                // 1: the process runs under a non-"C" LC_ALL (C.UTF-8: same numeric conventions, different name)
    uint32_t victim = 0, victim_op = 0, runner = 0, offset = 0;   // window-targeted strategy when victim != 0
    uint32_t fresh = 0;             // knob: also compare every thread's results with the same program run alone *in a process of its own* (see run_forked)
    std::vector<std::vector<uint64_t>> expected;      // (computed, not part of the plan text) digests of those solitary runs
    std::vector<std::vector<BOp>> programs;             // one per caller thread
    std::vector<Switch> switches;                       // non-empty: explicit schedule (replay / minimised)
};
std::string plan_to_text(const Plan &p);
bool plan_from_text(const std::string &t, Plan &p, std::string &err);
Plan gen_plan(uint64_t runseed);

// ops.cpp
const char *bop_name(int k);
int bop_count();
void *pool_build(uint64_t seed);
void pool_destroy(void *pool);
void *priv_new(const void *pool);      // (called by the main thread: the objects are handed to their thread before it starts)
void priv_delete(void *p);
uint64_t do_op(const void *pool, void *priv, const BOp &op);
uint64_t step_budget_for(const BOp &op);

struct Viol { bool set = false; std::string cls, site, msg; };
struct Totals {
    uint64_t runs = 0, events = 0, accesses = 0, preemptions = 0, switches = 0, ops = 0, sync_ops = 0;
    uint64_t strategy[5] = {0};     // serial, rare, medium, frequent preemption, window-targeted
    uint64_t fresh_reference_runs = 0, shared_lifo_runs = 0, reference_processes = 0;      // counted by the parent from the plan (run_forked)
    uint64_t locale_runs = 0, libc_reads = 0, libc_writes = 0, alloc_faults_planned = 0, alloc_faults_fired = 0;   // runs under a non-"C" process locale; modelled accesses to process-wide libc state
};
struct RunResult { Viol viol; uint64_t sig = 0, sched_sig = 0; bool nontrivial = false; RunStats stats; std::vector<Switch> recorded; };
RunResult run_plan(const Plan &p, Totals *tot);

} // namespace B
