// Engine B runtime interface (implemented in the uninstrumented shared object libsimb_rt.so).
#pragma once
#include <cstdint>
#include <cstddef>

namespace B {

enum { MAXT = 5 };                  // main thread (0) + up to 4 caller threads

struct Switch { uint64_t event; uint8_t thread; };

struct RaceReport {
    bool found = false;
    uint64_t event_a = 0, event_b = 0;      // event numbers of the two accesses (a earlier)
    int tid_a = 0, tid_b = 0, op_a = 0, op_b = 0, kind_a = 0, kind_b = 0;   // thread, op index within program, op kind
    bool write_a = false, write_b = false;
    char where[160] = {0};                  // location class: heap block, static storage (symbol), stack
};

struct SchedParams {
    int mode = 0;                    // 0 seeded (PRNG decides, switches are recorded), 1 explicit switch list
    uint64_t seed = 0;
    uint32_t mean_gap = 100;         // mean number of events between preemptions (seeded mode); 0 = never preempt
    uint32_t max_preemptions = 64;
    const Switch *list = nullptr; size_t nlist = 0;     // explicit mode
    // window-targeted strategy (seeded mode only): preempt `victim` at event `offset` of its operation #`victim_op`, let `runner`
    // execute one whole operation, then resume the victim
    int victim = 0, victim_op = -1, runner = 0; uint32_t offset = 0;
};

struct RunStats { uint64_t events = 0, preemptions = 0, switches = 0, accesses = 0, sync_ops = 0, libc_state_reads = 0, libc_state_writes = 0; bool deadlock = false; };

// ---- run control (called by the harness on the main thread)
void rt_begin_run(int nthreads, const SchedParams &sp);
typedef void (*ThreadBody)(int tid, void *arg);
void rt_run_threads(ThreadBody body, void *arg);        // starts nthreads caller threads, schedules them, joins
void rt_end_run(RunStats *stats, RaceReport *race, Switch *recorded, size_t *nrecorded, size_t cap);

// ---- called by thread bodies around each library operation
void rt_op_begin(int op_index, int op_kind, uint64_t step_budget);
void rt_op_end();
int rt_tid();

// coverage of schedules: which op-kind pairs overlapped (thread preempted inside X while another executed Y)
void rt_overlap_matrix(const uint8_t **m, int *dim);     // dim x dim bytes, row = preempted kind, col = kind executed meanwhile
enum { OV_DIM = 128 };

} // namespace B
