// Engine B, second half of the operation catalogue: the remaining overloads of the public API, so that every definition site of
// the headers is executed concurrently by some operation kind (measured by tools/coverage.py).  A hidden piece of shared mutable
// state can be introduced in any of them; the race detector needs the function to be *entered* by two threads, nothing more.
// Same rules as ops.cpp: shared pool objects are only read; everything that is written is thread-private or local.
#include "pool.h"

#include <complex>
#include <cstdio>
#include <filesystem>
#include <locale>
#include <sstream>
#include <stdexcept>
#include <string_view>

namespace B {

using simrt::Hash;

namespace {
// a public-extension-point writer owned by the calling thread (what a user-defined sink looks like)
struct vec_writer : public ST::format_writer {
    std::string out;
    explicit vec_writer(const char *fmt) : ST::format_writer(fmt) {}
    vec_writer &append(const char *data, size_t size = ST_AUTO_SIZE) override { out.append(data, size == ST_AUTO_SIZE ? std::strlen(data) : size); return *this; }
    vec_writer &append_char(char ch, size_t count = 1) override { out.append(count, ch); return *this; }
};
struct Point { int x, y; };
struct Nest { int depth; };         // formats itself through a nested ST::format call per level
// a FILE* owned by the calling thread whose bytes arrive in a private string (any buffering mode works on it, unlike a memstream)
struct CookieSink { std::string got; };
// (called from inside libc: it must not throw, so it never allocates - the owner reserves room before the call)
ssize_t cookie_write(void *c, const char *buf, size_t n) { auto &g = static_cast<CookieSink *>(c)->got; if (g.size() + n > g.capacity()) return 0; g.append(buf, n); return (ssize_t)n; }
}
}
namespace ST {
inline void format_type(const ST::format_spec &format, ST::format_writer &output, const B::Point &p) {
    output.append("(");
    ST::format_type(format, output, p.x);
    output.append_char(',');
    ST::format_type(format, output, p.y);
    output.append(")");
}
inline void format_type(const ST::format_spec &, ST::format_writer &output, const B::Nest &n) {
    if (n.depth <= 0) { output.append("."); return; }
    ST::string inner = ST::format("<{}>", B::Nest{n.depth - 1});
    output.append(inner.c_str(), inner.size());
}
}
namespace B {

static const char8_t *u8p(const ST::string &s) { return reinterpret_cast<const char8_t *>(s.c_str()); }
static const char8_t *u8p(const char *s) { return reinterpret_cast<const char8_t *>(s); }

void do_op2(const Pool &P, Priv &V, const BOp &op, Hash &h) {
    const ST::string &s = P.strs[op.a % P.strs.size()];
    const ST::string &t = P.strs[op.b % P.strs.size()];
    const ST::char_buffer &c8 = P.b8[op.a % P.b8.size()];
    const ST::utf16_buffer &c16 = P.b16[op.a % P.b16.size()];
    const ST::utf32_buffer &c32 = P.b32[op.a % P.b32.size()];
    const ST::wchar_buffer &cw = P.bw[op.a % P.bw.size()];
    const ST::case_sensitivity_t cs = (op.c & 1) ? ST::case_insensitive : ST::case_sensitive;
    const ST::utf_validation_t vm = (op.c & 2) ? ST::substitute_invalid : ((op.c & 4) ? ST::assume_valid : ST::check_validity);
    // thread-local STL copies of shared text (reading the shared buffers is the point; the copies are ours)
    auto narrow = [&] { return std::string(c8.data(), c8.size()); };
    auto wide = [&] { return std::wstring(cw.data(), cw.size()); };
    auto w16 = [&] { return std::u16string(c16.data(), c16.size()); };
    auto w32 = [&] { return std::u32string(c32.data(), c32.size()); };
    auto w8 = [&] { return std::u8string(u8p(s), s.size()); };
    ST::string n = s.empty() ? ST::string::from_validated("x", 1) : s.left(1 + op.c % 3 < s.size() ? 1 + op.c % 3 : s.size());
    // (left() may cut inside a character: only used with from_validated-style byte searches below)
    switch (op.kind) {
    case 56: {      // ctor_overloads
        hs(h, ST::string(cw.data(), cw.size(), vm)); hs(h, ST::string(c32.data(), c32.size(), vm)); hs(h, ST::string(c16.data(), c16.size(), vm));
        hs(h, ST::string(u8p(s), s.size(), vm)); hs(h, ST::string(c8, vm)); hs(h, ST::string(s.c_str(), s.size(), vm));
        hs(h, ST::string(narrow(), vm)); hs(h, ST::string(wide(), vm)); hs(h, ST::string(w16(), vm)); hs(h, ST::string(w32(), vm)); hs(h, ST::string(w8(), vm));
        std::string a = narrow(); std::wstring b = wide(); std::u16string c = w16(); std::u32string d = w32(); std::u8string e = w8();
        hs(h, ST::string(std::string_view(a), vm)); hs(h, ST::string(std::wstring_view(b), vm)); hs(h, ST::string(std::u16string_view(c), vm));
        hs(h, ST::string(std::u32string_view(d), vm)); hs(h, ST::string(std::u8string_view(e), vm));
        hs(h, ST::string(std::filesystem::path(a)));
        ST::string nul(ST::null); h.u64(nul.size());
        break; }
    case 57: {      // set_overloads
        ST::string &x = V.acc;
        x.set(ST::null); hs(h, x); x.set(cw.data(), cw.size(), vm); hs(h, x); x.set(c16.data(), c16.size(), vm); hs(h, x); x.set(c32.data(), c32.size(), vm); hs(h, x);
        x.set(u8p(s), s.size(), vm); hs(h, x); x.set(s); hs(h, x); x.set(c8, vm); hs(h, x); x.set(ST::char_buffer(c8), vm); hs(h, x);
        x.set(c16, vm); hs(h, x); x.set(c32, vm); hs(h, x); x.set(cw, vm); hs(h, x);
        x.set(narrow(), vm); hs(h, x); x.set(wide(), vm); hs(h, x); x.set(w16(), vm); hs(h, x); x.set(w32(), vm); hs(h, x); x.set(w8(), vm); hs(h, x);
        std::string a = narrow(); std::wstring b = wide(); std::u16string c = w16(); std::u32string d = w32(); std::u8string e = w8();
        x.set(std::string_view(a), vm); hs(h, x); x.set(std::wstring_view(b), vm); hs(h, x); x.set(std::u16string_view(c), vm); hs(h, x);
        x.set(std::u32string_view(d), vm); hs(h, x); x.set(std::u8string_view(e), vm); hs(h, x);
        x.set(std::filesystem::path(a)); hs(h, x);
        x.set_validated(s.c_str(), s.size()); hs(h, x); x.set_validated(u8p(t), t.size()); hs(h, x); x.set_validated(c8); hs(h, x); x.set_validated(ST::char_buffer(c8)); hs(h, x);
        x.set(ST::string(t)); hs(h, x);
        break; }
    case 58: {      // assign_overloads
        ST::string &x = V.acc;
        x = ST::null; hs(h, x); x = cw.data(); hs(h, x); x = c16.data(); hs(h, x); x = c32.data(); hs(h, x); x = u8p(s); hs(h, x); x = s.c_str(); hs(h, x);
        x = c8; hs(h, x); x = ST::char_buffer(c8); hs(h, x); x = c16; hs(h, x); x = c32; hs(h, x); x = cw; hs(h, x);
        x = narrow(); hs(h, x); x = wide(); hs(h, x); x = w16(); hs(h, x); x = w32(); hs(h, x); x = w8(); hs(h, x);
        std::string a = narrow(); std::wstring b = wide(); std::u16string c = w16(); std::u32string d = w32(); std::u8string e = w8();
        x = std::string_view(a); hs(h, x); x = std::wstring_view(b); hs(h, x); x = std::u16string_view(c); hs(h, x); x = std::u32string_view(d); hs(h, x); x = std::u8string_view(e); hs(h, x);
        x = std::filesystem::path(a); hs(h, x);
        break; }
    case 59: {      // from_overloads
        hs(h, ST::string::from_validated(u8p(s), s.size())); hs(h, ST::string::from_validated(c8)); hs(h, ST::string::from_validated(ST::char_buffer(c8)));
        hs(h, ST::string::from_utf8(u8p(s), s.size(), vm)); hs(h, ST::string::from_utf8(c8, vm)); hs(h, ST::string::from_utf8(s.c_str(), ST_AUTO_SIZE, vm));
        hs(h, ST::string::from_utf16(c16, vm)); hs(h, ST::string::from_utf16(c16.data(), c16.size(), vm)); hs(h, ST::string::from_utf32(c32, vm));
        hs(h, ST::string::from_wchar(cw, vm)); hs(h, ST::string::from_wchar(cw.data(), cw.size(), vm)); hs(h, ST::string::from_latin_1(c8)); hs(h, ST::string::from_latin_1(c8.data(), c8.size()));
        std::string a = narrow(); std::wstring b = wide(); std::u16string c = w16(); std::u32string d = w32(); std::u8string e = w8();
        hs(h, ST::string::from_std_string(a, vm)); hs(h, ST::string::from_std_string(b, vm)); hs(h, ST::string::from_std_wstring(b, vm)); hs(h, ST::string::from_std_string(c, vm));
        hs(h, ST::string::from_std_string(d, vm)); hs(h, ST::string::from_std_string(e, vm));
        hs(h, ST::string::from_std_string(std::string_view(a), vm)); hs(h, ST::string::from_std_string(std::wstring_view(b), vm)); hs(h, ST::string::from_std_wstring(std::wstring_view(b), vm));
        hs(h, ST::string::from_std_string(std::u16string_view(c), vm)); hs(h, ST::string::from_std_string(std::u32string_view(d), vm)); hs(h, ST::string::from_std_string(std::u8string_view(e), vm));
        hs(h, ST::string::from_path(std::filesystem::path(a)));
        break; }
    case 60: {      // accessors
        h.bytes(s.data(), s.size()); h.str(s.c_str("(empty)")); h.bytes(s.u8_str(), s.size()); h.u64(std::char_traits<char8_t>::length(s.u8_str(u8"(empty)")));
        if (!s.empty()) h.u8((uint8_t)s[op.c % s.size()]);
        h.u8(s.empty()); h.u64(s.size());
        hb(h, s.to_latin_1(ST::substitute_invalid)); hb(h, s.to_latin_1(ST::assume_valid));
        { ST::char_buffer r; s.to_buffer(r, true, ST::substitute_invalid); hb(h, r); s.to_buffer(r, false, ST::substitute_invalid); hb(h, r); s.to_buffer(r); hb(h, r); }
        { ST::utf16_buffer r; s.to_buffer(r); hb(h, r); ST::utf32_buffer q; s.to_buffer(q); hb(h, q); ST::wchar_buffer w; s.to_buffer(w); hb(h, w); }
        hstd(h, s.to_std_string(true, ST::substitute_invalid)); hstd(h, s.to_std_string(false, ST::substitute_invalid)); hstd(h, s.to_std_string(true)); hstd(h, s.to_std_string(false));
        { std::string r; s.to_std_string(r, true); hstd(h, r); s.to_std_string(r, false, ST::substitute_invalid); hstd(h, r); s.to_std_string(r, false, true); hstd(h, r); }
        { std::wstring r; s.to_std_string(r); hstd(h, r); std::u16string q; s.to_std_string(q); hstd(h, q); std::u32string w; s.to_std_string(w); hstd(h, w); std::u8string e; s.to_std_string(e); hstd(h, e); }
        hstd(h, s.to_std_u8string()); hstd(h, s.to_path().string());
        { std::string_view v = s.view(); h.bytes(v.data(), v.size()); size_t vs = op.c % (s.size() + 1); std::string_view v2 = s.view(vs, std::min<size_t>(op.c % 9, s.size() - vs)); h.bytes(v2.data(), v2.size()); }
        hb(h, s.to_utf8()); h.u64(s.to_utf8().size());
        break; }
    case 61: {      // from_num_overloads
        long long v = (long long)op.c * 1000003ll - 77777; int base = 2 + op.c % 35; bool up = op.b & 1;
        hs(h, ST::string::from_int((short)v, base, up)); hs(h, ST::string::from_int((int)v, base, up)); hs(h, ST::string::from_int((long)v, base, up)); hs(h, ST::string::from_int(v, base, up));
        hs(h, ST::string::from_uint((unsigned short)v, base, up)); hs(h, ST::string::from_uint((unsigned)v, base, up)); hs(h, ST::string::from_uint((unsigned long)v, base, up)); hs(h, ST::string::from_uint((unsigned long long)v, base, up));
        hs(h, ST::string::from_float((float)v / 7, 'f')); hs(h, ST::string::from_float((double)v / 7, 'e')); hs(h, ST::string::from_double((double)v / 9, 'g'));
        hs(h, ST::string::from_int64((int64_t)v, base, up)); hs(h, ST::string::from_uint64((uint64_t)v, base, up)); hs(h, ST::string::from_bool(!(op.c & 1)));
        break; }
    case 62: {      // to_num_overloads
        const ST::string &x = P.nums[op.a % P.nums.size()]; ST::conversion_result r; int base = (op.c & 1) ? 0 : ((op.c & 2) ? 10 : 16);
        h.u64((uint64_t)x.to_long(base)); h.u64((uint64_t)x.to_long(r, base)); h.u8(r.ok()); h.u64((uint64_t)x.to_long_long(base)); h.u64((uint64_t)x.to_long_long(r, base)); h.u8(r.full_match());
        h.u64((uint64_t)x.to_short(base)); h.u64((uint64_t)x.to_short(r, base)); h.u64((uint64_t)x.to_int(base)); h.u64((uint64_t)x.to_int(r, base)); h.u8(r.ok());
        h.u64(x.to_ulong(base)); h.u64(x.to_ulong(r, base)); h.u64(x.to_ulong_long(base)); h.u64(x.to_ulong_long(r, base)); h.u64(x.to_ushort(base)); h.u64(x.to_ushort(r, base));
        h.u64(x.to_uint(base)); h.u64(x.to_uint(r, base)); h.u8(r.full_match());
        float f = x.to_float(); h.bytes(&f, 4); f = x.to_float(r); h.bytes(&f, 4); double d = x.to_double(); h.bytes(&d, 8); d = x.to_double(r); h.bytes(&d, 8); h.u8(r.ok());
        h.u64((uint64_t)x.to_int64(base)); h.u64((uint64_t)x.to_int64(r, base)); h.u64(x.to_uint64(base)); h.u64(x.to_uint64(r, base));
        h.u8(x.to_bool()); h.u8(x.to_bool(r)); h.u8(r.ok()); h.u8(r.full_match()); h.u8(s.to_bool(r)); h.u8(r.ok());
        break; }
    case 63: {      // compare_overloads
        auto sg = [&](int c) { h.u8(c < 0 ? 1 : c > 0 ? 2 : 0); };
        sg(s.compare(u8p(t), cs)); sg(s.compare_n(t.c_str(), op.c % 20, cs)); sg(s.compare_n(u8p(t), op.c % 20, cs)); sg(s.compare_n(t, op.c % 9, cs));
        sg(s.compare_i(t.c_str())); sg(s.compare_i(u8p(t))); sg(s.compare_ni(t, op.c % 20)); sg(s.compare_ni(t.c_str(), op.c % 20)); sg(s.compare_ni(u8p(t), op.c % 20));
        h.u8(s == ST::null); h.u8(s != ST::null); h.u8(s == t.c_str()); h.u8(s != t.c_str()); h.u8(s == u8p(t)); h.u8(s != u8p(t));
        h.u8(ST::null == s); h.u8(ST::null != s); h.u8(t.c_str() == s); h.u8(t.c_str() != s); h.u8(u8p(t) == s); h.u8(u8p(t) != s);
        sg(s.compare(t.c_str(), cs)); sg(s.compare((const char *)nullptr)); sg(s.compare_n((const char *)nullptr, 3));
        break; }
    case 64: {      // find_overloads
        size_t st0 = op.c % (s.size() + 1), nn = n.size();
        h.u64((uint64_t)s.find(n.c_str(), nn, cs)); h.u64((uint64_t)s.find(u8p(n), cs)); h.u64((uint64_t)s.find(u8p(n), nn, cs));
        h.u64((uint64_t)s.find(st0, 'e', cs)); h.u64((uint64_t)s.find(st0, n.c_str(), cs)); h.u64((uint64_t)s.find(st0, n.c_str(), nn, cs)); h.u64((uint64_t)s.find(st0, u8p(n), cs)); h.u64((uint64_t)s.find(st0, u8p(n), nn, cs)); h.u64((uint64_t)s.find(st0, n, cs));
        h.u64((uint64_t)s.find_last(n.c_str(), nn, cs)); h.u64((uint64_t)s.find_last(u8p(n), cs)); h.u64((uint64_t)s.find_last(u8p(n), nn, cs));
        h.u64((uint64_t)s.find_last(st0, n.c_str(), nn, cs)); h.u64((uint64_t)s.find_last(st0, u8p(n), cs)); h.u64((uint64_t)s.find_last(st0, u8p(n), nn, cs)); h.u64((uint64_t)s.find_last(st0, n, cs));
        h.u8(s.contains(n.c_str(), cs)); h.u8(s.contains(n.c_str(), nn, cs)); h.u8(s.contains(u8p(n), cs)); h.u8(s.contains(u8p(n), nn, cs)); h.u8(s.contains(n, cs)); h.u8(s.contains('q', cs));
        break; }
    case 65: {      // edge_overloads
        h.u8(s.starts_with(n.c_str(), cs)); h.u8(s.starts_with(u8p(n), cs)); h.u8(s.ends_with(u8p(n), cs)); h.u8(s.ends_with(n.c_str(), cs)); h.u8(s.starts_with(t, cs)); h.u8(s.ends_with(t, cs));
        hs(h, s.before_first('e', cs)); hs(h, s.before_first(n.c_str(), cs)); hs(h, s.before_first(n, cs)); hs(h, s.before_first(u8p(n), cs));
        hs(h, s.after_first(' ', cs)); hs(h, s.after_first(n.c_str(), cs)); hs(h, s.after_first(n, cs)); hs(h, s.after_first(u8p(n), cs));
        hs(h, s.before_last('e', cs)); hs(h, s.before_last(n.c_str(), cs)); hs(h, s.before_last(n, cs)); hs(h, s.before_last(u8p(n), cs));
        hs(h, s.after_last(' ', cs)); hs(h, s.after_last(n.c_str(), cs)); hs(h, s.after_last(n, cs)); hs(h, s.after_last(u8p(n), cs));
        break; }
    case 66: {      // replace_overloads (substitute mode: a needle cut inside a character cannot make the result throw)
        const ST::utf_validation_t sv = ST::substitute_invalid;
        const ST::string &t = (s.size() > 200 && P.strs[op.b % P.strs.size()].size() > 200) ? P.strs[1] : P.strs[op.b % P.strs.size()];      // (long x long would be quadratic)
        hs(h, s.replace(n, "<r>", cs, sv)); hs(h, s.replace(n.c_str(), t, cs, sv)); hs(h, s.replace(n, t, cs, sv)); hs(h, s.replace(n.c_str(), "--", cs, sv));
        hs(h, s.replace(u8p(n), u8p("<8>"), cs, sv)); hs(h, s.replace(n, u8p("<8>"), cs, sv)); hs(h, s.replace(u8p(n), t, cs, sv));
        hs(h, s.replace(" ", "", cs)); hs(h, s.replace("e", "EE"));
        { ST::string mine(s); hs(h, mine.replace(u8p(n), t, cs, sv)); }       // (this overload is not const-qualified in the header)
        break; }
    case 67: {      // split_overloads
        auto hv = [&](const std::vector<ST::string> &v) { h.u64(v.size()); for (const ST::string &x : v) hs(h, x); };
        size_t mx = (op.c & 8) ? ST_AUTO_SIZE : op.c % 4;
        hv(s.split(u8p(" "), mx, cs)); hv(s.split(" ", mx, cs)); hv(s.split('e', mx, cs)); hv(s.split(ST::string::from_validated(", ", 2), mx, cs)); hv(s.tokenize(" e,")); hv(s.tokenize());
        break; }
    case 68: {      // plus_overloads
        hs(h, cw.data() + s); hs(h, s + cw.data()); hs(h, s + c16.data()); hs(h, c16.data() + s); hs(h, s + c32.data()); hs(h, c32.data() + s); hs(h, s + u8p(t)); hs(h, u8p(t) + s);
        hs(h, s + t.c_str()); hs(h, t.c_str() + s); hs(h, s + t);
        hs(h, s + char16_t(0x20AC)); hs(h, char16_t(0x20AC) + s); hs(h, s + wchar_t(0xE9)); hs(h, wchar_t(0xE9) + s); hs(h, s + 'c'); hs(h, 'c' + s); hs(h, s + char32_t(0x1F600)); hs(h, char32_t(0x1F600) + s);
        break; }
    case 69: {      // plus_assign_overloads
        ST::string &x = V.acc; if (x.size() > 1500) x.clear();
        x += c16.data(); x += c32.data(); x += cw.data(); x += u8p(t); x += t.c_str(); x += t; hs(h, x);
        x += 'c'; x += char16_t(0xE9); x += char32_t(0x10FFFF); x += wchar_t(0x20AC); hs(h, x);
        break; }
    case 70: {      // stream_overloads
        ST::string_stream &ss = V.ss; if (ss.size() > 3000) ss.truncate();
        std::string a = narrow(); std::wstring b = wide(); std::u16string c = w16(); std::u32string d = w32(); std::u8string e = w8();
        ss << c32.data() << u8p(s) << c16.data() << cw.data() << s.c_str() << s << a << b << c << d << e;
        ss << std::string_view(a) << std::wstring_view(b) << std::u16string_view(c) << std::u32string_view(d) << std::u8string_view(e) << std::filesystem::path(a);
        ss << (unsigned long)op.c << (long long)-(long long)op.c * 99991 << (unsigned long long)op.c * 1000003ull << (long)op.b << (unsigned)op.a << (int)-7 << (short)op.c << (unsigned short)op.b;
        ss << 'x' << (float)op.c / 3 << (double)op.b / 7;
        ss.append(s.c_str(), s.size()).append("lit").append_char('.', op.c % 5);
        h.u64(ss.size()); h.bytes(ss.raw_buffer(), ss.size()); hs(h, ss.to_string(true, ST::substitute_invalid)); hs(h, ss.to_string(false));
        break; }
    case 71: {      // stream_move_erase
        ST::string_stream &ss = V.ss; ss << s << t;
        ST::string_stream m(std::move(ss)); h.u64(m.size()); h.u64(ss.size()); ss << "again"; m.erase(op.c % 7); m.truncate(m.size() / 2);
        ss = std::move(m); h.bytes(ss.raw_buffer(), ss.size()); m << op.c; h.bytes(m.raw_buffer(), m.size());
        ST::string_stream big; big.append_char('z', 300 + op.c % 300); ss = std::move(big); h.u64(ss.size()); ss.erase(10); ss.truncate(op.c % 64); h.bytes(ss.raw_buffer(), ss.size());
        break; }
    case 72: {      // free_conv_wchar
        hb(h, ST::wchar_to_utf8(cw, vm)); hb(h, ST::wchar_to_utf8(cw.data(), cw.size(), vm)); hb(h, ST::wchar_to_utf16(cw, vm)); hb(h, ST::wchar_to_utf16(cw.data(), cw.size(), vm));
        hb(h, ST::wchar_to_utf32(cw, vm)); hb(h, ST::wchar_to_utf32(cw.data(), cw.size(), vm)); hb(h, ST::utf8_to_wchar(c8, vm)); hb(h, ST::utf8_to_wchar(c8.data(), c8.size(), vm));
        hb(h, ST::utf16_to_wchar(c16, vm)); hb(h, ST::utf16_to_wchar(c16.data(), c16.size(), vm)); hb(h, ST::utf32_to_wchar(c32, vm)); hb(h, ST::utf32_to_wchar(c32.data(), c32.size(), vm));
        hb(h, ST::latin_1_to_wchar(c8)); hb(h, ST::latin_1_to_wchar(c8.data(), c8.size())); hb(h, ST::wchar_to_latin_1(cw, ST::substitute_invalid)); hb(h, ST::wchar_to_latin_1(cw.data(), cw.size(), ST::substitute_invalid));
        break; }
    case 73: {      // free_conv_latin1
        hb(h, ST::latin_1_to_utf8(c8.data(), c8.size())); hb(h, ST::latin_1_to_utf16(c8.data(), c8.size())); hb(h, ST::latin_1_to_utf32(c8.data(), c8.size())); hb(h, ST::latin_1_to_utf32(c8));
        hb(h, ST::utf8_to_latin_1(c8, ST::substitute_invalid)); hb(h, ST::utf16_to_latin_1(c16, ST::substitute_invalid)); hb(h, ST::utf16_to_latin_1(c16.data(), c16.size(), ST::substitute_invalid));
        hb(h, ST::utf32_to_latin_1(c32, ST::substitute_invalid)); hb(h, ST::utf32_to_latin_1(c32.data(), c32.size(), ST::substitute_invalid));
        hb(h, ST::utf8_to_latin_1(c8, ST::assume_valid)); hb(h, ST::utf16_to_latin_1(c16, ST::assume_valid)); hb(h, ST::utf32_to_latin_1(c32, ST::assume_valid));
        break; }
    case 74: {      // free_conv_char8 + pointer forms of the UTF pairs
        hb(h, ST::utf8_to_utf16(u8p(s), s.size(), vm)); hb(h, ST::utf8_to_utf32(u8p(s), s.size(), vm)); hb(h, ST::utf8_to_wchar(u8p(s), s.size(), vm)); hb(h, ST::utf8_to_latin_1(u8p(s), s.size(), ST::substitute_invalid));
        hb(h, ST::utf8_to_utf16(s.c_str(), s.size(), vm)); hb(h, ST::utf16_to_utf8(c16.data(), c16.size(), vm)); hb(h, ST::utf16_to_utf32(c16.data(), c16.size(), vm));
        hb(h, ST::utf32_to_utf8(c32.data(), c32.size(), vm)); hb(h, ST::utf32_to_utf16(c32.data(), c32.size(), vm)); hb(h, ST::utf8_to_utf32(c8, vm));
        break; }
    case 75: {      // format_chars
        hs(h, ST::format("{}|{c}|{}|{}|{}|{}|{x}|{>4}", 'a', 66, L'w', char16_t(0x20AC), char32_t(0x1F600), char8_t('8'), 'z', (signed char)'s'));
        hs(h, ST::format("{c}{c}{c}", char32_t(0x10FFFF), wchar_t(0xE9), (unsigned char)'u')); hs(h, ST::format("{}/{}", true, false)); hs(h, ST::format("{>6}|{<6}|{6}", true, 'x', L'y'));
        break; }
    case 76: {      // format_std_strings
        hs(h, ST::format("{}|{>20}|{<20}|{}|{}", narrow(), wide(), w16(), w32(), w8()));
        hs(h, ST::format("{}|{}|{}|{}|{}|{}", u8p(s), c8, c16, c32, cw, std::filesystem::path(narrow())));
        hs(h, ST::format("{}|{}|{}", c16.data(), c32.data(), cw.data()));
        break; }
    case 77: {      // format_views_ints
        std::string a = narrow(); std::wstring b = wide(); std::u16string c = w16(); std::u32string d = w32(); std::u8string e = w8();
        hs(h, ST::format("{}|{>12}|{<12}|{>3}|{}", std::string_view(a), std::wstring_view(b), std::u16string_view(c), std::u32string_view(d), std::u8string_view(e)));
        long long v = (long long)op.c * 7919 - 400000;
        hs(h, ST::format("{}|{x}|{o}|{b}|{#x}|{+}|{08}|{_-10}", v, (unsigned long long)v, (unsigned long)op.c, (long)-v, (unsigned short)op.b, (short)-3, (signed char)-5, (unsigned char)200));
        hs(h, ST::format("{&2} {&1} {&2}", op.a, s)); hs(h, ST::format("{{}}{}{{", op.c)); hs(h, ST::format("{}", Point{(int)op.a, -(int)op.b}));
        hs(h, ST::format(ST::substitute_invalid, "{}", s)); hs(h, ST::format_latin_1("{}|{}", c8, op.c));
        break; }
    case 78: {      // iostream_narrow: the thread's own std streams
        std::ostringstream local; const bool own = (op.c >> 4) % 3 == 0;      // a third of the time: the thread's long-lived stream (state copied from the prototype)
        std::ostringstream &os = own ? V.os8 : local; if (own) { os.str(std::string()); os.clear(); }
        if (op.c % 3 == 0) os.imbue(std::locale(std::locale::classic(), new std::numpunct<char>()));      // the thread's own stream carries its own (non-classic) locale object
        ST::writef(os, "{}|{>10}|{x}|{}|{+}|{_*8}", s, t, op.c, 3.25, (int)op.b, op.a); os << s << ' ' << t; hstd(h, os.str());
        if ((op.c >> 7) % 3 == 0) flaky_writef<char>(h, 1 + (int)(op.b % 4), (op.c >> 9) & 1, "{}|{>9}|{x}|{_*6}", s, op.c, op.b, op.a);      // a sink that fails once, in either exception mode
        std::istringstream is(std::string(t.c_str(), t.size()) + " tail"); if (op.c % 5 == 0) is.imbue(std::locale(std::locale::classic(), new std::numpunct<char>())); ST::string tok; int cnt = 0; while (is >> tok) { hs(h, tok); if (++cnt > 40) break; }
        break; }
    case 79: {      // iostream_wide
        std::wostringstream local; const bool own = (op.c >> 4) % 3 == 0;
        std::wostringstream &os = own ? V.osw : local; if (own) { os.str(std::wstring()); os.clear(); }
        if (op.c % 3 == 0) os.imbue(std::locale(std::locale::classic(), new std::numpunct<wchar_t>()));
        ST::writef(os, "{}|{<10}|{}|{+}|{>7_.}", s, op.c, L"wide é", -(int)op.b, op.a); os << s; hstd(h, os.str());
        if ((op.c >> 7) % 3 == 0) flaky_writef<wchar_t>(h, 1 + (int)(op.b % 4), (op.c >> 9) & 1, "{}|{<9}|{+}|{>7_.}", s, op.c, -(int)op.b, op.a);
        std::wistringstream is(std::wstring(cw.data(), cw.size()) + L" tail"); ST::string tok; int cnt = 0; while (is >> tok) { hs(h, tok); if (++cnt > 40) break; }
        std::basic_ostringstream<char32_t> o32; try { ST::writef(o32, "{}", op.c); h.u64(o32.str().size()); } catch (const std::exception &) { h.str("ios32"); }
        break; }
    case 80: {      // stdio_memstream: ST::printf to the thread's own FILE*
        // (in every buffering mode a FILE* can be in: a third of the calls each fully buffered, line buffered, unbuffered; every fourth on a memstream)
        if (op.c % 4 == 3) {
            char *mem = nullptr; size_t len = 0; FILE *f = open_memstream(&mem, &len);
            if (f) { ST::printf(f, "{}|{>10}|{x}|{}|{_*12}", s, t, op.c, 3.25, op.b); ST::printf(f, "plain"); std::fclose(f); h.bytes(mem, len); std::free(mem); }
            break;
        }
        CookieSink sink; sink.got.reserve(s.size() + 2 * t.size() + 256); cookie_io_functions_t io = {nullptr, cookie_write, nullptr, nullptr};
        FILE *f = fopencookie(&sink, "w", io);
        if (f) {
            static const int MODES[] = {_IOFBF, _IOLBF, _IONBF};
            unsigned m = (op.c >> 2) % 3; std::setvbuf(f, nullptr, MODES[m], m == 2 ? 0 : 16 + op.b % 300);
            ST::printf(f, "{}|{>10}|{x}|{}|{_*12}\n", s, t, op.c, 3.25, op.b); ST::printf(f, "plain"); ST::printf(f, "{>40}|{}", op.a, t); std::fclose(f); hstd(h, sink.got);
        }
        break; }
    case 81: {      // buffer_overloads
        using namespace ST::literals;
        const ST::wchar_buffer &w2 = P.bw[op.b % P.bw.size()]; const ST::utf16_buffer &x2 = P.b16[op.b % P.b16.size()]; const ST::utf32_buffer &y2 = P.b32[op.b % P.b32.size()]; const ST::char_buffer &z2 = P.b8[op.b % P.b8.size()];
        auto sg = [&](int c) { h.u8(c < 0 ? 1 : c > 0 ? 2 : 0); };
        sg(cw.compare(w2.data())); sg(cw.compare(w2)); sg(cw.compare_n(w2, op.c % 9)); sg(cw.compare_n(w2.data(), op.c % 9)); h.u8(cw != w2); h.u8(cw == w2); h.u8(cw < w2);
        sg(c16.compare(x2)); sg(c16.compare(x2.data())); sg(c16.compare_n(x2.data(), op.c % 9)); h.u8(c16 != x2); h.u8(c16 < x2);
        sg(c32.compare(y2)); sg(c32.compare_n(y2, op.c % 5)); h.u8(c32 == y2); h.u8(c32 != y2);
        sg(c8.compare(z2.data())); sg(c8.compare_n(z2.data(), op.c % 20)); h.u8(c8 != z2); h.u8(c8 == ST::null); h.u8(c8 != ST::null); h.u8(c8 < z2); h.u8(ST::null == c8); h.u8(ST::null != c16);
        if (!c8.empty()) { h.u8((uint8_t)c8[op.c % c8.size()]); h.u8((uint8_t)c8.front()); h.u8((uint8_t)c8.back()); h.u8((uint8_t)c8.at(op.c % c8.size())); }
        uint64_t sum = 0; for (auto it = c8.crbegin(); it != c8.crend(); ++it) sum = sum * 31 + (unsigned char)*it; for (auto it = c16.rbegin(); it != c16.rend(); ++it) sum += *it; for (auto it = c32.cbegin(); it != c32.cend(); ++it) sum ^= *it; for (wchar_t ch : cw) sum += (uint64_t)ch; h.u64(sum);
        hb(h, u"b16 €"_stbuf); hb(h, U"b32 \U0001F600"_stbuf); hb(h, L"bw é"_stbuf); hb(h, u8"b8 é"_stbuf); hs(h, u8"s8 é"_st);
        hs(h, ST::hex_encode(c8)); hs(h, ST::base64_encode(c8)); hstd(h, c16.to_std_string()); hstd(h, c32.to_std_string()); hstd(h, cw.to_std_string());
        { std::u16string_view v = c16.view(); h.u64(v.size()); size_t ws = op.c % (cw.size() + 1); std::wstring_view w = cw.view(ws, std::min<size_t>(3, cw.size() - ws)); h.bytes(w.data(), w.size() * sizeof(wchar_t)); std::string_view q = c8.view(); h.u64(q.size()); }
        { ST::wchar_buffer m(cw); ST::wchar_buffer m2(std::move(m)); m = m2; m2.allocate(op.c % 30, L'w'); m.clear(); hb(h, m2); ST::utf32_buffer f(op.c % 20, U'f'); hb(h, f); ST::utf16_buffer g; g = c16; g.allocate(op.c % 40); h.u64(g.size()); }
        h.u64(ST::char_buffer::strlen(s.c_str())); h.u64(ST::wchar_buffer::strlen(cw.data()));
        break; }
    case 82: {      // custom_writer: a user-defined format_writer owned by the thread
        vec_writer w("[{}] [{>8}] [{x}] tail"); ST::apply_format(w, s, t, op.c); hstd(h, w.out);
        vec_writer w2("no fields"); ST::apply_format(w2); hstd(h, w2.out);
        vec_writer w3("lit"); static_cast<ST::format_writer &>(w3).append("literal text"); w3.append("abc", 2); hstd(h, w3.out);
        break; }
    case 83: {      // validation_modes on malformed input (thread-local copies, corrupted locally)
        std::string raw(s.c_str(), s.size()); raw.insert(op.c % (raw.size() + 1), (op.c & 1) ? "\xC3" : "\xED\xA0\x80"); raw += (char)0xFF;
        hs(h, ST::string::from_utf8(raw.c_str(), raw.size(), ST::substitute_invalid)); hs(h, ST::string::from_utf8(raw.c_str(), raw.size(), ST::assume_valid));
        std::u16string r16(c16.data(), c16.size()); r16.insert(op.c % (r16.size() + 1), 1, char16_t(0xDC00)); r16 += char16_t(0xD800);
        hs(h, ST::string::from_utf16(r16.data(), r16.size(), ST::substitute_invalid)); hb(h, ST::utf16_to_utf32(r16.data(), r16.size(), ST::substitute_invalid)); hb(h, ST::utf16_to_latin_1(r16.data(), r16.size(), ST::substitute_invalid));
        std::u32string r32(c32.data(), c32.size()); r32 += char32_t(0x110000); r32.insert(op.c % r32.size(), 1, char32_t(0xD801));
        hs(h, ST::string::from_utf32(r32.data(), r32.size(), ST::substitute_invalid)); hb(h, ST::utf32_to_utf16(r32.data(), r32.size(), ST::substitute_invalid)); hb(h, ST::utf32_to_latin_1(r32.data(), r32.size(), ST::substitute_invalid));
        try { hs(h, ST::string::from_utf16(r16.data(), r16.size())); } catch (const ST::unicode_error &e) { h.str(e.what()); }
        try { hb(h, ST::utf32_to_utf8(r32.data(), r32.size())); } catch (const ST::unicode_error &e) { h.str(e.what()); }
        try { hb(h, ST::utf16_to_latin_1(c16, ST::check_validity)); } catch (const ST::unicode_error &e) { h.str(e.what()); }
        try { hb(h, ST::utf8_to_latin_1(raw.c_str(), raw.size(), ST::check_validity)); } catch (const ST::unicode_error &e) { h.str(e.what()); }
        break; }
    case 84: {      // wide_buffers: conversions between the wide pool buffers through strings
        ST::string a(c16), b(c32), c(cw); h.u8(a == b); h.u8(b == c); hb(h, a.to_utf32()); hb(h, b.to_utf16()); hb(h, c.to_wchar()); hb(h, a.to_latin_1(ST::substitute_invalid));
        break; }
    case 86: {      // record_buffer: text read into a string of the thread's own - one record valid, the next (same length, same place if the allocator
        // hands the block out again, to this thread or to another one) not - and constructed from in every validation mode
        const ST::string &rec = P.strs[(op.a % 6) * 3 % P.strs.size()];
        for (unsigned round = 0; round < 2; round++) {
            std::string line(rec.c_str(), rec.size());
            if (((op.c >> round) & 1) && line.size() > 3) { line[line.size() / 2] = (char)0xC3; line[line.size() / 2 + 1] = 'x'; }      // a lead byte without its continuation: same length
            try { ST::string x(line.c_str(), line.size()); hs(h, x); } catch (const ST::unicode_error &) { h.str("rejected"); }
            hs(h, ST::string::from_utf8(line.c_str(), line.size(), ST::substitute_invalid));
            try { ST::string y = ST::string::from_utf8(line.c_str(), line.size(), ST::check_validity); h.u64(y.size()); } catch (const ST::unicode_error &) { h.str("rejected"); }
        }
        break; }
    default: {      // 85 nested_formatter: a user-defined formatter that formats re-entrantly, 1-28 levels deep (many format calls of one thread alive at once)
        try { hs(h, ST::format("{}|{}", Nest{(int)(1 + op.b % 28)}, s)); } catch (const std::exception &e) { h.str(e.what()); }
        break; }
    }
}

} // namespace B
