// Engine B runtime: seeded scheduler (one baton, real threads parked on semaphores), happens-before data-race
// detector over every instrumented memory access, models of the synchronisation a correct library might use,
// and the per-thread step clock.  Built WITHOUT instrumentation into libsimb_rt.so; the library-under-test TU is
// compiled with g++ -fsanitize=thread -fsanitize-coverage=trace-pc (compile only) and linked against the entry
// points defined here instead of libtsan, with -Wl,--wrap for the libc calls header code makes.
#include "rt.h"
#include <string_view>
#include <functional>
#include "../simrt/simrt.h"

#include <atomic>
#include <cstdarg>
#include <cstdio>
#include <cstdlib>
#include <cstring>
#include <cwchar>
#include <cwctype>
#include <cctype>
#include <clocale>
#include <ctime>
#include <dlfcn.h>
#include <pthread.h>
#include <semaphore.h>
#include <sys/mman.h>

namespace simrt { extern void (*g_heap_range_hook)(const void *, size_t); }

namespace B {

namespace {

struct Thr {
    int tid = 0; sem_t sem; pthread_t handle;
    bool started = false, finished = false, blocked = false, in_op = false;
    uint32_t vc[MAXT] = {0};
    int cur_op = -1, cur_kind = 0;
    uint64_t steps = 0, budget = 0;
    uint32_t ev_in_op = 0;
    char *stack_lo = nullptr, *stack_hi = nullptr;
    void *own_stack = nullptr;      // the caller thread's stack, mapped by us at an address derived from the seed (0 if that failed)
};

struct Rec { uint32_t clk; uint32_t ev; uint16_t op; uint8_t tid, mask, write, kind; };
struct Cell { uint64_t key; uint32_t epoch; uint32_t rr; Rec r[4]; };
const size_t SH_BITS = 18, SH_SIZE = (size_t)1 << SH_BITS;

struct Sync { uint64_t key; uint32_t epoch; uint32_t vc[MAXT]; };
const size_t SY_SIZE = 4096;
struct Guard { uint64_t key; uint32_t epoch; int state; int owner; };      // 0 uninit, 1 in progress, 2 done
const size_t GU_SIZE = 1024;

struct State {
    Thr t[MAXT];
    int nthreads = 0;          // caller threads (tids 1..nthreads)
    int current = 0;
    bool active = false;
    uint32_t epoch = 0;
    uint64_t event = 0;
    SchedParams sp;
    simrt::Rng rng;
    uint64_t countdown = 0;
    unsigned sync_preempts = 0;      // preemptions placed at synchronisation points in this run
    size_t next_switch = 0;
    Switch rec[4096]; size_t nrec = 0;
    RunStats stats;
    RaceReport race;
    Cell *shadow = nullptr; size_t shadow_used = 0;
    Sync sync[SY_SIZE];
    Guard guards[GU_SIZE];
    uint8_t overlap[OV_DIM * OV_DIM];
    ThreadBody body = nullptr; void *body_arg = nullptr;
    int window_state = 0;      // 0 armed, 1 runner executing its operation, 2 done
};
State G;
thread_local Thr *self = nullptr;

// ------------------------------------------------------------------ baton
void pass_baton(int to) {
    Thr *me = self;
    G.current = to;
    G.stats.switches++;
    sem_post(&G.t[to].sem);
    sem_wait(&me->sem);
}
int next_runnable(int after, bool include_blocked) {
    for (int k = 1; k <= G.nthreads; k++) {
        int c = ((after - 1 + k) % G.nthreads) + 1;
        if (c == after) continue;
        Thr &x = G.t[c];
        if (x.started && !x.finished && (include_blocked || !x.blocked)) return c;
    }
    return 0;
}
void note_overlap(int running_kind) {
    for (int k = 1; k <= G.nthreads; k++) {
        Thr &x = G.t[k];
        if (&x != self && x.started && !x.finished && x.in_op && x.cur_kind < OV_DIM && running_kind < OV_DIM)
            G.overlap[x.cur_kind * OV_DIM + running_kind] = 1;
    }
}
void record_switch(int to) { if (G.nrec < sizeof G.rec / sizeof G.rec[0]) G.rec[G.nrec++] = {G.event, (uint8_t)to}; }

// scheduling decision at an event of the running thread
void maybe_switch() {
    Thr *me = self;
    int to = 0;
    ++me->ev_in_op;
    if (G.sp.mode == 0 && G.sp.victim && G.window_state == 0 && me->tid == G.sp.victim && me->cur_op == G.sp.victim_op && me->ev_in_op >= G.sp.offset) {
        Thr &r = G.t[G.sp.runner];
        G.window_state = 2;
        if (G.sp.runner >= 1 && G.sp.runner <= G.nthreads && G.sp.runner != me->tid && r.started && !r.finished && !r.blocked) {
            G.window_state = 1; G.stats.preemptions++; record_switch(G.sp.runner); pass_baton(G.sp.runner);
            if (me->in_op) note_overlap(me->cur_kind);
            return;
        }
    }
    if (G.sp.mode == 0) {
        if (!G.sp.mean_gap || G.stats.preemptions >= G.sp.max_preemptions) return;
        if (G.countdown > 1) { --G.countdown; return; }
        G.countdown = 1 + G.rng.below(2 * G.sp.mean_gap);
        int cands[MAXT], n = 0;
        for (int k = 1; k <= G.nthreads; k++) if (k != me->tid && G.t[k].started && !G.t[k].finished && !G.t[k].blocked) cands[n++] = k;
        if (!n) return;
        to = cands[G.rng.below((uint32_t)n)];
    } else {
        if (G.next_switch >= G.sp.nlist || G.sp.list[G.next_switch].event > G.event) return;
        to = G.sp.list[G.next_switch].thread; ++G.next_switch;
        if (to == me->tid || to < 1 || to > G.nthreads || !G.t[to].started || G.t[to].finished || G.t[to].blocked) { to = next_runnable(me->tid, false); if (!to) return; }
    }
    G.stats.preemptions++;
    record_switch(to);
    pass_baton(to);
    if (me->in_op) note_overlap(me->cur_kind);
}

// a thread that cannot proceed (lock held by a parked thread) lets the others run
void block_and_yield() {
    Thr *me = self;
    me->blocked = true;
    int to = next_runnable(me->tid, false);
    if (!to) {
        // everybody is blocked: deadlock (reported as a violation of the run)
        G.stats.deadlock = true;
        to = next_runnable(me->tid, true);
        if (!to) { simrt::fatal("deadlock", "every caller thread is blocked on a synchronisation primitive"); }
        simrt::fatal("deadlock", "every caller thread is blocked on a synchronisation primitive");
    }
    record_switch(to);
    pass_baton(to);
    me->blocked = false;
}

// ------------------------------------------------------------------ vector clocks / sync objects
void vc_join(uint32_t *dst, const uint32_t *src) { for (int i = 0; i < MAXT; i++) if (src[i] > dst[i]) dst[i] = src[i]; }
Sync *sync_of(const void *addr) {
    uint64_t key = (uint64_t)(uintptr_t)addr; size_t h = (size_t)((key * 0x9E3779B97F4A7C15ull) >> 52) % SY_SIZE;
    for (size_t i = 0; i < SY_SIZE; i++) {
        Sync &s = G.sync[(h + i) % SY_SIZE];
        if (s.epoch != G.epoch) { s.epoch = G.epoch; s.key = key; std::memset(s.vc, 0, sizeof s.vc); return &s; }
        if (s.key == key) return &s;
    }
    return &G.sync[h];
}
// Where code synchronises is where it communicates: an atomic load or store, a lock taken or released, a guarded initialisation.  The windows
// that matter for *logically* wrong but race-free shared state (check-then-act, a value read twice) open and close at exactly these points, and
// they are a few events wide - uniform preemption almost never lands inside.  In seeded mode up to eight times per run, with probability 1/3, the
// running thread is preempted right at such a point and another runnable thread takes over.  The unchanged headers contain no such point.
void sync_point() {
    Thr *me = self;
    if (G.sp.mode != 0 || !me || !me->in_op || G.sync_preempts >= 8 || G.rng.below(3)) return;
    int cands[MAXT], n = 0;
    for (int k = 1; k <= G.nthreads; k++) if (k != me->tid && G.t[k].started && !G.t[k].finished && !G.t[k].blocked) cands[n++] = k;
    if (!n) return;
    int to = cands[G.rng.below((uint32_t)n)];
    ++G.sync_preempts; G.stats.preemptions++;
    record_switch(to);
    pass_baton(to);
    if (me->in_op) note_overlap(me->cur_kind);
}
void sync_acquire(const void *addr) { if (!G.active || !self) return; G.stats.sync_ops++; vc_join(self->vc, sync_of(addr)->vc); sync_point(); }
void sync_release(const void *addr) { if (!G.active || !self) return; G.stats.sync_ops++; Sync *s = sync_of(addr); vc_join(s->vc, self->vc); self->vc[self->tid]++; sync_point(); }

// ------------------------------------------------------------------ shadow memory and the race check
inline size_t sh_hash(uint64_t key) { return (size_t)((key * 0x9E3779B97F4A7C15ull) >> (64 - SH_BITS)); }
Cell *cell_of(uint64_t key, bool create) {
    size_t h = sh_hash(key);
    for (size_t i = 0; i < 64; i++) {
        Cell &c = G.shadow[(h + i) & (SH_SIZE - 1)];
        if (c.epoch != G.epoch) {
            if (!create || G.shadow_used > SH_SIZE * 3 / 4) return nullptr;
            c.epoch = G.epoch; c.key = key; c.rr = 0; std::memset(c.r, 0, sizeof c.r); ++G.shadow_used; return &c;
        }
        if (c.key == key) return &c;
    }
    return nullptr;
}
// Process-wide state kept *inside* libc is invisible to the instrumentation.  Each family of libc calls that reads or writes such
// state is modelled as an access to one pseudo location, so that header code which starts to call setlocale(), strtok(), rand(),
// localeconv(), strerror(), the mb*() functions with their internal shift state ... from two threads is a reported race, while
// the calls the unchanged headers make (snprintf, strto*) are only reads of the locale and therefore race with nothing.
enum { LS_LOCALE = 0, LS_STRTOK, LS_RAND, LS_STRERROR, LS_TM, LS_ENV, LS_MBSTATE, LS_LOCALECONV, LS__COUNT };
alignas(8) char g_libc_state[LS__COUNT][8];
const char *const LS_NAMES[LS__COUNT] = {"the process locale (setlocale)", "strtok's saved position", "rand's generator state", "strerror's message buffer",
                                         "the static struct tm / asctime buffer", "the process environment", "the internal multibyte shift state (mb*/wc* with a null mbstate_t)",
                                         "localeconv's static result"};
void describe(const void *addr, char *out, size_t n) {
    const char *a = (const char *)addr;
    if (a >= &g_libc_state[0][0] && a < &g_libc_state[0][0] + sizeof g_libc_state) { std::snprintf(out, n, "process-wide state inside libc: %s", LS_NAMES[(a - &g_libc_state[0][0]) / 8]); return; }
    for (int k = 0; k <= G.nthreads; k++) if (G.t[k].stack_lo && a >= G.t[k].stack_lo && a < G.t[k].stack_hi) { std::snprintf(out, n, "stack of thread %d", k); return; }
    Dl_info di;
    if (dladdr(addr, &di) && di.dli_sname) { std::snprintf(out, n, "static storage: %s+%ld", di.dli_sname, (long)(a - (const char *)di.dli_saddr)); return; }
    if (dladdr(addr, &di) && di.dli_fname) { std::snprintf(out, n, "static storage of %s", std::strrchr(di.dli_fname, '/') ? std::strrchr(di.dli_fname, '/') + 1 : di.dli_fname); return; }
    std::snprintf(out, n, "heap or anonymous memory");
}
void access_cell(uint64_t key, uint8_t mask, bool write, const void *addr) {
    Thr *me = self;
    Cell *c = cell_of(key, true);
    if (!c) return;
    int slot = -1, empty = -1;
    for (int i = 0; i < 4; i++) {
        Rec &r = c->r[i];
        if (!r.mask) { if (empty < 0) empty = i; continue; }
        if (r.tid == me->tid) { if (r.mask == mask && r.write == (uint8_t)write) slot = i; continue; }
        if (!(r.mask & mask) || !(r.write || write)) continue;
        if (r.clk > me->vc[r.tid] && !G.race.found) {
            G.race.found = true;
            G.race.event_a = r.ev; G.race.event_b = G.event; G.race.tid_a = r.tid; G.race.tid_b = me->tid; G.race.op_a = r.op; G.race.op_b = me->cur_op;
            G.race.kind_a = r.kind; G.race.kind_b = me->cur_kind; G.race.write_a = r.write; G.race.write_b = write;
            describe(addr, G.race.where, sizeof G.race.where);
        }
    }
    if (slot < 0) slot = empty;
    if (slot < 0) { // evict: prefer an older record of this thread, else round robin
        for (int i = 0; i < 4; i++) if (c->r[i].tid == me->tid) { slot = i; break; }
        if (slot < 0) slot = (int)(c->rr++ & 3);
    }
    Rec &r = c->r[slot];
    r.clk = me->vc[me->tid]; r.ev = (uint32_t)G.event; r.op = (uint16_t)me->cur_op; r.tid = (uint8_t)me->tid; r.mask = mask; r.write = write; r.kind = (uint8_t)me->cur_kind;
}
void on_access(const void *addr, size_t size, bool write) {
    if (!G.active) return;
    Thr *me = self;
    if (!me || !me->in_op) return;
    ++G.event; ++G.stats.accesses;
    uintptr_t a = (uintptr_t)addr, e = a + size;
    if (size > 4096) e = a + 4096;                     // very long ranges: the first 4 KiB are enough to expose sharing
    while (a < e) {
        uintptr_t cell_end = (a | 7) + 1, stop = cell_end < e ? cell_end : e;
        uint8_t mask = (uint8_t)(((1u << (stop - a)) - 1) << (a & 7));
        access_cell(a >> 3, mask, write, (const void *)a);
        a = stop;
    }
    maybe_switch();
}
void libc_state(int which, bool write) { if (G.active && self && self->in_op) { if (write) G.stats.libc_state_writes++; else G.stats.libc_state_reads++; } on_access(g_libc_state[which], 8, write); }
void clear_range(const void *p, size_t n) {
    if (!G.active || !G.shadow) return;
    uintptr_t a = (uintptr_t)p & ~(uintptr_t)7, e = (uintptr_t)p + n;
    if (n > (1u << 24)) return;      // (was 64 KiB: with the shared-LIFO placement policy a 128 KiB stream block went from one thread to the next with the first one's records still on it - a false race in the thorough tier, 11.4)
    for (; a < e; a += 8) { Cell *c = cell_of(a >> 3, false); if (c) std::memset(c->r, 0, sizeof c->r); }
}

void *trampoline(void *arg) {
    Thr *me = (Thr *)arg;
    self = me;
    pthread_attr_t at; if (pthread_getattr_np(pthread_self(), &at) == 0) { void *lo; size_t sz; pthread_attr_getstack(&at, &lo, &sz); me->stack_lo = (char *)lo; me->stack_hi = (char *)lo + sz; pthread_attr_destroy(&at); }
    me->started = true;
    sem_post(&G.t[0].sem);            // tell main we are parked
    sem_wait(&me->sem);               // wait for the baton
    G.body(me->tid, G.body_arg);
    me->finished = true; me->in_op = false;
    int to = next_runnable(me->tid, true);
    G.current = to;
    sem_post(&G.t[to].sem);           // 0 = main when everybody is done
    return nullptr;
}

} // namespace

// ------------------------------------------------------------------ public control interface
void rt_begin_run(int nthreads, const SchedParams &sp) {
    if (!G.shadow) { G.shadow = (Cell *)std::calloc(SH_SIZE, sizeof(Cell)); simrt::g_heap_range_hook = clear_range; }
    ++G.epoch; if (G.epoch == 0) { std::memset(G.shadow, 0, SH_SIZE * sizeof(Cell)); G.epoch = 1; }
    G.shadow_used = 0; G.nthreads = nthreads; G.event = 0; G.sp = sp; G.rng.seed(sp.seed);
    G.countdown = sp.mean_gap ? 1 + G.rng.below(2 * sp.mean_gap) : 0;
    G.sync_preempts = 0; G.next_switch = 0; G.nrec = 0; G.stats = RunStats(); G.race = RaceReport(); G.window_state = 0;
    for (int i = 0; i < MAXT; i++) {
        Thr &x = G.t[i];
        x.tid = i; x.started = x.finished = x.blocked = x.in_op = false; x.cur_op = -1; x.cur_kind = 0; x.steps = 0;
        std::memset(x.vc, 0, sizeof x.vc);
    }
    static bool sems = false;
    if (!sems) { for (int i = 0; i < MAXT; i++) sem_init(&G.t[i].sem, 0, 0); sems = true; }
    self = &G.t[0]; G.t[0].started = true; G.t[0].vc[0] = 1;
    G.active = true;
}

void rt_run_threads(ThreadBody body, void *arg) {
    G.body = body; G.body_arg = arg;
    Thr *me = &G.t[0];
    for (int k = 1; k <= G.nthreads; k++) {
        Thr &x = G.t[k];
        std::memcpy(x.vc, me->vc, sizeof x.vc); x.vc[k] = 1;           // thread start edge
        // The identity of a caller thread (pthread_self(), std::this_thread::get_id() and whatever library code derives from it - a hash, a slot
        // index) is the address of a block at the top of its stack. Left to the system it depends on what this process happened to map before:
        // one more source of nondeterminism, and a replay in a fresh process would see other identities. So the stacks are ours, at addresses
        // derived from the seed: identities vary from run to run and are the same whenever the seed is.
        const size_t STK = (size_t)8 << 20;
        pthread_attr_t at; pthread_attr_init(&at);
        uintptr_t slot = (uintptr_t)(simrt::mix(G.sp.seed, 0x57ac, (uint64_t)k) % 65536);
        // In a quarter of the runs the identities *collide*: thread k >= 2 gets a stack whose thread id has the same hash as thread 1's in its low
        // eight bits (std::hash<std::thread::id> is a byte hash of the pthread_t; the distance between a stack's base and the pthread_t inside it is
        // measured on thread 1).  Code that picks "its" slot of a small table by thread identity then meets a neighbour in the same slot.
        static uintptr_t tcb_off = 0;      // pthread_self() - stack base, learned from the first thread with a stack of ours
        if (k >= 2 && tcb_off && G.t[1].own_stack && (simrt::mix(G.sp.seed, 0xc011, 0) & 3) == 0) {
            auto h = [](uintptr_t v) { return std::hash<std::string_view>()(std::string_view((const char *)&v, sizeof v)); };
            const size_t want_low = h((uintptr_t)G.t[1].own_stack + tcb_off) & 255;
            for (uintptr_t j = 0; j < 65536; j++) {
                uintptr_t cand = (slot + j) % 65536, base = (uintptr_t)0x7d0000000000ull + (uintptr_t)k * 0x4000000000ull + cand * 0x10000ull;
                if ((h(base + tcb_off) & 255) == want_low) { slot = cand; break; }
            }
        }
        void *want = (void *)((uintptr_t)0x7d0000000000ull + (uintptr_t)k * 0x4000000000ull + slot * 0x10000ull);
        void *got = mmap(want, STK, PROT_READ | PROT_WRITE, MAP_PRIVATE | MAP_ANONYMOUS | MAP_STACK | MAP_FIXED_NOREPLACE, -1, 0);
        if (got != MAP_FAILED && got != want) { munmap(got, STK); got = MAP_FAILED; }
        x.own_stack = got == MAP_FAILED ? nullptr : got;
        if (x.own_stack) pthread_attr_setstack(&at, x.own_stack, STK);
        pthread_create(&x.handle, &at, trampoline, &x);
        pthread_attr_destroy(&at);
        sem_wait(&me->sem);
        if (!tcb_off && x.own_stack) tcb_off = (uintptr_t)x.handle - (uintptr_t)x.own_stack;
    }
    me->vc[0]++;
    int first = 1;
    if (G.sp.mode == 0) first = 1 + (int)G.rng.below((uint32_t)G.nthreads);
    else if (G.sp.nlist && G.sp.list[0].event == 0) { first = G.sp.list[0].thread; G.next_switch = 1; if (first < 1 || first > G.nthreads) first = 1; }
    G.rec[G.nrec++] = {0, (uint8_t)first};
    G.current = first;
    sem_post(&G.t[first].sem);
    sem_wait(&me->sem);                // returns when the last thread finished
    for (int k = 1; k <= G.nthreads; k++) { pthread_join(G.t[k].handle, nullptr); vc_join(me->vc, G.t[k].vc); if (G.t[k].own_stack) { munmap(G.t[k].own_stack, (size_t)8 << 20); G.t[k].own_stack = nullptr; } }
    self = me;
}

void rt_end_run(RunStats *stats, RaceReport *race, Switch *recorded, size_t *nrecorded, size_t cap) {
    G.active = false;
    G.stats.events = G.event;
    if (stats) *stats = G.stats;
    if (race) *race = G.race;
    if (recorded && nrecorded) { size_t n = G.nrec < cap ? G.nrec : cap; std::memcpy(recorded, G.rec, n * sizeof(Switch)); *nrecorded = n; }
}

void rt_op_begin(int op_index, int op_kind, uint64_t step_budget) {
    Thr *me = self; if (!me) return;
    me->cur_op = op_index; me->cur_kind = op_kind; me->steps = 0; me->budget = step_budget; me->in_op = true; me->ev_in_op = 0;
    note_overlap(op_kind);
    if (G.active) { ++G.event; maybe_switch(); }
}
void rt_op_end() {
    Thr *me = self; if (!me) return;
    me->in_op = false;
    if (G.active && G.window_state == 1 && me->tid == G.sp.runner) {
        // the runner finished one whole operation inside the victim's operation: hand the baton back
        G.window_state = 2;
        Thr &v = G.t[G.sp.victim];
        if (v.started && !v.finished) { record_switch(G.sp.victim); pass_baton(G.sp.victim); }
    }
}
int rt_tid() { return self ? self->tid : 0; }
void rt_overlap_matrix(const uint8_t **m, int *dim) { *m = G.overlap; *dim = OV_DIM; }

} // namespace B

using namespace B;

// ------------------------------------------------------------------ per-thread step clock
extern "C" void __sanitizer_cov_trace_pc() {
    Thr *me = self;
    if (!me || !me->in_op || !G.active) return;
    if (++me->steps > me->budget) {
        char b[96]; std::snprintf(b, sizeof b, "operation still running after %llu steps (budget %llu)", (unsigned long long)me->steps, (unsigned long long)me->budget);
        simrt::fatal("no_progress", b);
    }
}

// ------------------------------------------------------------------ ThreadSanitizer ABI emitted by g++ -fsanitize=thread
extern "C" {
void __tsan_init() {}
void __tsan_func_entry(void *) {}
void __tsan_func_exit() {}
void __tsan_read1(void *a) { on_access(a, 1, false); }
void __tsan_read2(void *a) { on_access(a, 2, false); }
void __tsan_read4(void *a) { on_access(a, 4, false); }
void __tsan_read8(void *a) { on_access(a, 8, false); }
void __tsan_read16(void *a) { on_access(a, 16, false); }
void __tsan_write1(void *a) { on_access(a, 1, true); }
void __tsan_write2(void *a) { on_access(a, 2, true); }
void __tsan_write4(void *a) { on_access(a, 4, true); }
void __tsan_write8(void *a) { on_access(a, 8, true); }
void __tsan_write16(void *a) { on_access(a, 16, true); }
void __tsan_unaligned_read2(void *a) { on_access(a, 2, false); }
void __tsan_unaligned_read4(void *a) { on_access(a, 4, false); }
void __tsan_unaligned_read8(void *a) { on_access(a, 8, false); }
void __tsan_unaligned_read16(void *a) { on_access(a, 16, false); }
void __tsan_unaligned_write2(void *a) { on_access(a, 2, true); }
void __tsan_unaligned_write4(void *a) { on_access(a, 4, true); }
void __tsan_unaligned_write8(void *a) { on_access(a, 8, true); }
void __tsan_unaligned_write16(void *a) { on_access(a, 16, true); }
void __tsan_read_range(void *a, unsigned long n) { if (n) on_access(a, n, false); }
void __tsan_write_range(void *a, unsigned long n) { if (n) on_access(a, n, true); }
void __tsan_vptr_update(void **p, void *) { on_access(p, sizeof(void *), true); }
void __tsan_vptr_read(void **p) { on_access(p, sizeof(void *), false); }

// atomics: performed for real; every atomic operation is treated as acquire+release on its address
// (over-approximating synchronisation can hide a race, never invent one)
#define ATOMIC_SYNC(a) do { sync_acquire((const void *)(a)); sync_release((const void *)(a)); } while (0)
#define TSAN_ATOMIC(bits, T)                                                                                                      \
    T __tsan_atomic##bits##_load(const volatile T *a, int mo) { T v = __atomic_load_n(a, mo); sync_acquire((const void *)a); return v; }   \
    void __tsan_atomic##bits##_store(volatile T *a, T v, int mo) { sync_release((const void *)a); __atomic_store_n(a, v, mo); }            \
    T __tsan_atomic##bits##_exchange(volatile T *a, T v, int mo) { ATOMIC_SYNC(a); return __atomic_exchange_n(a, v, mo); }                 \
    T __tsan_atomic##bits##_fetch_add(volatile T *a, T v, int mo) { ATOMIC_SYNC(a); return __atomic_fetch_add(a, v, mo); }                 \
    T __tsan_atomic##bits##_fetch_sub(volatile T *a, T v, int mo) { ATOMIC_SYNC(a); return __atomic_fetch_sub(a, v, mo); }                 \
    T __tsan_atomic##bits##_fetch_and(volatile T *a, T v, int mo) { ATOMIC_SYNC(a); return __atomic_fetch_and(a, v, mo); }                 \
    T __tsan_atomic##bits##_fetch_or(volatile T *a, T v, int mo) { ATOMIC_SYNC(a); return __atomic_fetch_or(a, v, mo); }                   \
    T __tsan_atomic##bits##_fetch_xor(volatile T *a, T v, int mo) { ATOMIC_SYNC(a); return __atomic_fetch_xor(a, v, mo); }                 \
    T __tsan_atomic##bits##_fetch_nand(volatile T *a, T v, int mo) { ATOMIC_SYNC(a); return __atomic_fetch_nand(a, v, mo); }               \
    int __tsan_atomic##bits##_compare_exchange_strong(volatile T *a, T *c, T v, int mo, int fmo) { ATOMIC_SYNC(a); return __atomic_compare_exchange_n(a, c, v, 0, mo, fmo); } \
    int __tsan_atomic##bits##_compare_exchange_weak(volatile T *a, T *c, T v, int mo, int fmo) { ATOMIC_SYNC(a); return __atomic_compare_exchange_n(a, c, v, 1, mo, fmo); }   \
    T __tsan_atomic##bits##_compare_exchange_val(volatile T *a, T c, T v, int mo, int fmo) { ATOMIC_SYNC(a); __atomic_compare_exchange_n(a, &c, v, 0, mo, fmo); return c; }
TSAN_ATOMIC(8, unsigned char)
TSAN_ATOMIC(16, unsigned short)
TSAN_ATOMIC(32, unsigned int)
TSAN_ATOMIC(64, unsigned long)
void __tsan_atomic_thread_fence(int mo) { __atomic_thread_fence(mo); }
void __tsan_atomic_signal_fence(int mo) { __atomic_signal_fence(mo); }

// ------------------------------------------------------------------ synchronisation a correct library might contain
// function-local statics: own guard protocol so that a parked initialiser never blocks the baton holder
static Guard *guard_of(void *g) {
    uint64_t key = (uint64_t)(uintptr_t)g; size_t h = (size_t)((key * 0x9E3779B97F4A7C15ull) >> 54) % GU_SIZE;
    for (size_t i = 0; i < GU_SIZE; i++) {
        Guard &x = G.guards[(h + i) % GU_SIZE];
        if (x.key == key) return &x;
        if (x.key == 0) { x.key = key; x.state = 0; x.owner = 0; return &x; }
    }
    return &G.guards[h];
}
int __wrap___cxa_guard_acquire(long long *g) {
    if (*(volatile char *)g) { sync_acquire(g); return 0; }
    Guard *x = guard_of(g);
    for (;;) {
        if (x->state == 2 || *(volatile char *)g) { sync_acquire(g); return 0; }
        if (x->state == 0) { x->state = 1; x->owner = rt_tid(); return 1; }
        if (x->owner == rt_tid()) simrt::fatal("abort", "recursive initialisation of a function-local static");
        if (!G.active || !self) { sched_yield(); continue; }
        block_and_yield();
    }
}
void __wrap___cxa_guard_release(long long *g) { Guard *x = guard_of(g); sync_release(g); *(volatile char *)g = 1; x->state = 2; }
void __wrap___cxa_guard_abort(long long *g) { Guard *x = guard_of(g); x->state = 0; x->owner = 0; }

int __wrap_pthread_mutex_lock(pthread_mutex_t *m) {
    for (;;) {
        int r = pthread_mutex_trylock(m);
        if (r == 0) { sync_acquire(m); return 0; }
        if (r != 16 /*EBUSY*/) return r;
        if (!G.active || !self) { sched_yield(); continue; }
        block_and_yield();
    }
}
int __wrap_pthread_mutex_trylock(pthread_mutex_t *m) { int r = pthread_mutex_trylock(m); if (r == 0) sync_acquire(m); return r; }
int __wrap_pthread_mutex_unlock(pthread_mutex_t *m) { sync_release(m); return pthread_mutex_unlock(m); }
int __wrap_pthread_once(pthread_once_t *o, void (*fn)(void)) {
    Guard *x = guard_of(o);
    for (;;) {
        if (x->state == 2) { sync_acquire(o); return 0; }
        if (x->state == 0) { x->state = 1; x->owner = rt_tid(); fn(); sync_release(o); x->state = 2; return 0; }
        if (!G.active || !self) { sched_yield(); continue; }
        block_and_yield();
    }
}
int __wrap_pthread_cond_wait(pthread_cond_t *, pthread_mutex_t *) { std::printf("UNSUPPORTED primitive=pthread_cond_wait\n"); std::fflush(stdout); _Exit(2); }
int __wrap_pthread_cond_timedwait(pthread_cond_t *, pthread_mutex_t *, const struct timespec *) { std::printf("UNSUPPORTED primitive=pthread_cond_timedwait\n"); std::fflush(stdout); _Exit(2); }
int __wrap_pthread_rwlock_rdlock(pthread_rwlock_t *) { std::printf("UNSUPPORTED primitive=pthread_rwlock\n"); std::fflush(stdout); _Exit(2); }
int __wrap_pthread_rwlock_wrlock(pthread_rwlock_t *) { std::printf("UNSUPPORTED primitive=pthread_rwlock\n"); std::fflush(stdout); _Exit(2); }

// ------------------------------------------------------------------ libc calls made from header code: report the ranges they touch
void *__wrap_memcpy(void *d, const void *s, size_t n) { if (n) { on_access(s, n, false); on_access(d, n, true); } return memcpy(d, s, n); }
void *__wrap_memmove(void *d, const void *s, size_t n) { if (n) { on_access(s, n, false); on_access(d, n, true); } return memmove(d, s, n); }
void *__wrap_memset(void *d, int c, size_t n) { if (n) on_access(d, n, true); return memset(d, c, n); }
int __wrap_memcmp(const void *a, const void *b, size_t n) { if (n) { on_access(a, n, false); on_access(b, n, false); } return memcmp(a, b, n); }
void *__wrap_memchr(const void *s, int c, size_t n) { if (n) on_access(s, n, false); return (void *)memchr(s, c, n); }
size_t __wrap_strlen(const char *s) { size_t n = strlen(s); on_access(s, n + 1, false); return n; }
wchar_t *__wrap_wmemcpy(wchar_t *d, const wchar_t *s, size_t n) { if (n) { on_access(s, n * sizeof(wchar_t), false); on_access(d, n * sizeof(wchar_t), true); } return wmemcpy(d, s, n); }
wchar_t *__wrap_wmemmove(wchar_t *d, const wchar_t *s, size_t n) { if (n) { on_access(s, n * sizeof(wchar_t), false); on_access(d, n * sizeof(wchar_t), true); } return wmemmove(d, s, n); }
wchar_t *__wrap_wmemset(wchar_t *d, wchar_t c, size_t n) { if (n) on_access(d, n * sizeof(wchar_t), true); return wmemset(d, c, n); }
int __wrap_wmemcmp(const wchar_t *a, const wchar_t *b, size_t n) { if (n) { on_access(a, n * sizeof(wchar_t), false); on_access(b, n * sizeof(wchar_t), false); } return wmemcmp(a, b, n); }
wchar_t *__wrap_wmemchr(const wchar_t *s, wchar_t c, size_t n) { if (n) on_access(s, n * sizeof(wchar_t), false); return (wchar_t *)wmemchr(s, c, n); }
size_t __wrap_wcslen(const wchar_t *s) { size_t n = wcslen(s); on_access(s, (n + 1) * sizeof(wchar_t), false); return n; }
int __wrap_snprintf(char *buf, size_t n, const char *fmt, ...) {
    va_list ap; va_start(ap, fmt);
    int r = vsnprintf(buf, n, fmt, ap);
    va_end(ap);
    libc_state(LS_LOCALE, false);
    on_access(fmt, strlen(fmt) + 1, false);
    if (buf && n) { size_t w = r < 0 ? 0 : ((size_t)r + 1 < n ? (size_t)r + 1 : n); if (w) on_access(buf, w, true); }
    return r;
}
#define WRAP_STRTO(name, T, ...)                                                                                  \
    T __wrap_##name(const char *s, char **end, ##__VA_ARGS__);
long __wrap_strtol(const char *s, char **e, int b) { libc_state(LS_LOCALE, false); char *le; long v = strtol(s, &le, b); on_access(s, (size_t)(le - s) + 1, false); if (e) *e = le; return v; }
unsigned long __wrap_strtoul(const char *s, char **e, int b) { libc_state(LS_LOCALE, false); char *le; unsigned long v = strtoul(s, &le, b); on_access(s, (size_t)(le - s) + 1, false); if (e) *e = le; return v; }
long long __wrap_strtoll(const char *s, char **e, int b) { libc_state(LS_LOCALE, false); char *le; long long v = strtoll(s, &le, b); on_access(s, (size_t)(le - s) + 1, false); if (e) *e = le; return v; }
unsigned long long __wrap_strtoull(const char *s, char **e, int b) { libc_state(LS_LOCALE, false); char *le; unsigned long long v = strtoull(s, &le, b); on_access(s, (size_t)(le - s) + 1, false); if (e) *e = le; return v; }
float __wrap_strtof(const char *s, char **e) { libc_state(LS_LOCALE, false); char *le; float v = strtof(s, &le); on_access(s, (size_t)(le - s) + 1, false); if (e) *e = le; return v; }
double __wrap_strtod(const char *s, char **e) { libc_state(LS_LOCALE, false); char *le; double v = strtod(s, &le); on_access(s, (size_t)(le - s) + 1, false); if (e) *e = le; return v; }

// ---- libc functions with process-wide state (none is called by the unchanged headers; see the comment at g_libc_state)
char *__wrap_setlocale(int cat, const char *loc) { libc_state(LS_LOCALE, loc != nullptr); return setlocale(cat, loc); }
struct lconv *__wrap_localeconv(void) { libc_state(LS_LOCALE, false); libc_state(LS_LOCALECONV, true); return localeconv(); }
char *__wrap_strtok(char *s, const char *d) { libc_state(LS_STRTOK, true); return strtok(s, d); }
int __wrap_rand(void) { libc_state(LS_RAND, true); return rand(); }
void __wrap_srand(unsigned v) { libc_state(LS_RAND, true); srand(v); }
char *__wrap_strerror(int e) { libc_state(LS_STRERROR, true); return strerror(e); }
struct tm *__wrap_gmtime(const time_t *t) { libc_state(LS_TM, true); return gmtime(t); }
struct tm *__wrap_localtime(const time_t *t) { libc_state(LS_TM, true); libc_state(LS_ENV, false); return localtime(t); }
char *__wrap_asctime(const struct tm *t) { libc_state(LS_TM, true); return asctime(t); }
char *__wrap_ctime(const time_t *t) { libc_state(LS_TM, true); return ctime(t); }
char *__wrap_getenv(const char *n) { libc_state(LS_ENV, false); return getenv(n); }
int __wrap_setenv(const char *n, const char *v, int o) { libc_state(LS_ENV, true); return setenv(n, v, o); }
int __wrap_putenv(char *s) { libc_state(LS_ENV, true); return putenv(s); }
int __wrap_unsetenv(const char *n) { libc_state(LS_ENV, true); return unsetenv(n); }
int __wrap_mblen(const char *s, size_t n) { libc_state(LS_LOCALE, false); libc_state(LS_MBSTATE, true); return mblen(s, n); }
int __wrap_mbtowc(wchar_t *w, const char *s, size_t n) { libc_state(LS_LOCALE, false); libc_state(LS_MBSTATE, true); return mbtowc(w, s, n); }
int __wrap_wctomb(char *s, wchar_t w) { libc_state(LS_LOCALE, false); libc_state(LS_MBSTATE, true); return wctomb(s, w); }
size_t __wrap_mbstowcs(wchar_t *d, const char *s, size_t n) { libc_state(LS_LOCALE, false); return mbstowcs(d, s, n); }
size_t __wrap_wcstombs(char *d, const wchar_t *s, size_t n) { libc_state(LS_LOCALE, false); return wcstombs(d, s, n); }
size_t __wrap_mbrtowc(wchar_t *w, const char *s, size_t n, mbstate_t *ps) { libc_state(LS_LOCALE, false); if (!ps) libc_state(LS_MBSTATE, true); return mbrtowc(w, s, n, ps); }
size_t __wrap_wcrtomb(char *s, wchar_t w, mbstate_t *ps) { libc_state(LS_LOCALE, false); if (!ps) libc_state(LS_MBSTATE, true); return wcrtomb(s, w, ps); }
size_t __wrap_mbrlen(const char *s, size_t n, mbstate_t *ps) { libc_state(LS_LOCALE, false); if (!ps) libc_state(LS_MBSTATE, true); return mbrlen(s, n, ps); }
size_t __wrap_mbsrtowcs(wchar_t *d, const char **s, size_t n, mbstate_t *ps) { libc_state(LS_LOCALE, false); if (!ps) libc_state(LS_MBSTATE, true); return mbsrtowcs(d, s, n, ps); }
size_t __wrap_wcsrtombs(char *d, const wchar_t **s, size_t n, mbstate_t *ps) { libc_state(LS_LOCALE, false); if (!ps) libc_state(LS_MBSTATE, true); return wcsrtombs(d, s, n, ps); }
int __wrap_toupper(int c) { libc_state(LS_LOCALE, false); return toupper(c); }
int __wrap_tolower(int c) { libc_state(LS_LOCALE, false); return tolower(c); }
wint_t __wrap_towupper(wint_t c) { libc_state(LS_LOCALE, false); return towupper(c); }
wint_t __wrap_towlower(wint_t c) { libc_state(LS_LOCALE, false); return towlower(c); }
int __wrap_sprintf(char *buf, const char *fmt, ...) { va_list ap; va_start(ap, fmt); int r = vsprintf(buf, fmt, ap); va_end(ap); libc_state(LS_LOCALE, false); if (r >= 0) on_access(buf, (size_t)r + 1, true); return r; }
int __wrap_vsnprintf(char *buf, size_t n, const char *fmt, va_list ap) { int r = vsnprintf(buf, n, fmt, ap); libc_state(LS_LOCALE, false); if (buf && n) { size_t w = r < 0 ? 0 : ((size_t)r + 1 < n ? (size_t)r + 1 : n); if (w) on_access(buf, w, true); } return r; }
} // extern "C"
