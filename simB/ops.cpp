// Engine B: the operations caller threads execute — const members on shared immutable strings/buffers and
// arbitrary operations on thread-private objects.  This TU is compiled with -fsanitize=thread (ABI only) and
// -fsanitize-coverage=trace-pc, so every memory access made here and in the inlined library code is an event.
#include "pool.h"

#include <complex>
#include <stdexcept>

namespace B {

using simrt::Hash;

static const char *const KIND_NAMES[] = {
    "find", "find_last", "contains_starts_ends", "compare", "relops_hash", "substr", "trim", "before_after", "case", "replace",
    "split", "tokenize", "to_utf16", "to_utf32", "to_wchar", "to_latin_1", "to_utf8_copy", "to_std", "to_num", "plus",
    "plus_char", "format_ints", "format_double", "format_strings", "format_latin_1", "hex_encode", "base64_encode", "hex_decode", "base64_decode", "copy_construct",
    "iterate_at", "buf_compare", "buf16_to_string", "buf32_to_string", "bufw_to_string", "free_utf8_to_utf16", "free_utf16_to_utf8", "free_latin1",
    "priv_stream", "priv_stream_nums", "priv_from_num", "priv_append", "priv_assign", "priv_set_wide", "priv_buffer", "priv_vector", "priv_fill", "priv_literals",
    "find_last_bounded", "format_complex", "decode_into_buffer", "split_join", "decode_invalid", "invalid_text", "bad_format", "out_of_range",
    // ops2.cpp: the remaining overloads of the public API (every definition site of the headers is entered by some kind; tools/coverage.py)
    "ctor_overloads", "set_overloads", "assign_overloads", "from_overloads", "accessors", "from_num_overloads", "to_num_overloads", "compare_overloads",
    "find_overloads", "edge_overloads", "replace_overloads", "split_overloads", "plus_overloads", "plus_assign_overloads", "stream_overloads",
    "stream_move_erase", "free_conv_wchar", "free_conv_latin1", "free_conv_char8", "format_chars", "format_std_strings", "format_views_ints",
    "iostream_narrow", "iostream_wide", "stdio_memstream", "buffer_overloads", "custom_writer", "validation_modes", "wide_buffers", "nested_formatter", "record_buffer"};
const int NKINDS = sizeof KIND_NAMES / sizeof KIND_NAMES[0];
const char *bop_name(int k) { return (k >= 0 && k < NKINDS) ? KIND_NAMES[k] : "?"; }
int bop_count() { return NKINDS; }


static uint32_t draw_cp(simrt::Rng &r, unsigned mix) {
    if (mix == 0 || r.below(100) < (mix == 1 ? 70u : 35u)) return 0x20 + r.below(0x5F);
    switch (r.below(5)) {
    case 0: return 0xA0 + r.below(0x700);
    case 1: return 0x800 + r.below(0xD000);
    case 2: return 0x10000 + r.below(0x100000);
    case 3: { static const uint32_t E[] = {0xE9, 0x20AC, 0x1F600, 0xFFFD, 0x7FF, 0x800, 0x10FFFF, 0x7F}; return E[r.below(8)]; }
    default: return ' ';
    }
}

void *pool_build(uint64_t seed) {
    Pool *p = new Pool();
    simrt::Rng r; r.seed(simrt::mix(seed, 0xB00, 1));
    static const unsigned SZ[] = {0, 3, 15, 16, 17, 40, 100, 600, 12, 11, 0, 3, 15, 16, 260, 300, 700, 1500, 5000};      // a third of the pool is long: some paths only run for long text
    for (unsigned i = 0; i < 19; i++) {
        unsigned n = SZ[i], mix = i % 3;
        std::u32string sc;
        for (unsigned k = 0; k < n; k++) sc += (char32_t)draw_cp(r, mix);
        ST::string s = ST::string::from_utf32(sc.data(), sc.size());
        p->strs.push_back(s);
        p->b8.push_back(s.to_utf8()); p->b16.push_back(s.to_utf16()); p->b32.push_back(s.to_utf32()); p->bw.push_back(s.to_wchar());
        p->hex.push_back(ST::hex_encode(s.c_str(), s.size()));
        p->b64.push_back(ST::base64_encode(s.c_str(), s.size()));
    }
    static const char *const NUMS[] = {"0", "42", "-17", "0x1F", "3.14159", "1e10", "true", "FALSE", "  12abc", "9223372036854775807", "-0.5e-3", "077",
                                        "-9223372036854775808", "18446744073709551615", "1.7976931348623157e308", "4.9e-324", "zz", "-ZZ", "1010101010101010101010101010101", "+0", "0.000000000000000000001",
                                        "123456789012345678901234567890", "inf", "nan", "0b101", "1_000", "\t 7", "7 ", ""};
    for (const char *n : NUMS) p->nums.push_back(ST::string::from_validated(n, std::strlen(n)));
    p->strs.push_back(ST::string::from_validated("the quick brown fox jumps over the lazy dog, the end", 52));
    p->strs.push_back(ST::string::from_validated("a,b,,c;d e\tf", 12));
    // homogeneous text: every character 4 (3, 2) UTF-8 bytes - the extreme expansion ratios between the encodings
    for (unsigned w = 0; w < 3; w++) { std::u32string sc; for (unsigned k = 0; k < 90; k++) sc += (char32_t)(w == 0 ? 0x10000 + r.below(0x100000) : w == 1 ? 0x800 + r.below(0xD000) : 0xA0 + r.below(0x700));
        ST::string hs = ST::string::from_utf32(sc.data(), sc.size()); p->strs.push_back(hs); p->b8.push_back(hs.to_utf8()); p->b16.push_back(hs.to_utf16()); p->b32.push_back(hs.to_utf32()); p->bw.push_back(hs.to_wchar()); }
    // repetitive text: many matches of the same needle, many pieces, many tokens (random text has each character about once in a hundred)
    { std::string rep; for (int i = 0; i < 24; i++) rep += "the quick brown fox, "; p->strs.push_back(ST::string::from_validated(rep.data(), rep.size())); }
    { std::string rep; for (int i = 0; i < 40; i++) rep += (i % 3) ? "ab;c d," : "\xC3\xA9e e,"; p->strs.push_back(ST::string::from_validated(rep.data(), rep.size())); }
    // objects with a past (done last: nothing reallocates the vectors afterwards). Indices 10-14 repeat size classes that exist elsewhere in the pool.
    // 11, 13: the source of a move construction, not touched since; 12: cleared; 14: the source of a move assignment. All are valid, empty
    // objects, and reading them concurrently is as legitimate as reading any other shared object.
    { ST::string t(std::move(p->strs[11])); ST::string u(std::move(p->strs[13])); p->strs[12].clear(); ST::string v; v = std::move(p->strs[14]); }
    { ST::char_buffer t(std::move(p->b8[11])); ST::utf16_buffer u(std::move(p->b16[11])); ST::utf32_buffer v(std::move(p->b32[13])); ST::wchar_buffer w(std::move(p->bw[13]));
      p->b8[12].clear(); p->b16[12] = ST::null; ST::char_buffer a; a = std::move(p->b8[14]); ST::wchar_buffer b; b = std::move(p->bw[14]); }
    // the prototype streams: configured, then used (a sink that has been written to may carry state a fresh one does not)
    p->proto8 << std::left; p->proto8.precision(4); ST::writef(p->proto8, "{}|{>12}|{x}", p->strs[0], p->strs[1], 48879); p->proto8 << p->strs[2];
    // every other pool: before the threads exist the process has already met a sink that failed once (with and without exceptions(badbit))
    if (seed % 2 == 0) { simrt::Hash dummy; for (int k = 1; k <= 3; k++) { flaky_writef<char>(dummy, k, k & 1, "{}|{>9}|{x}", p->strs[0], 77, k); flaky_writef<wchar_t>(dummy, k, !(k & 1), "{}|{<9}", p->strs[1], k); } }
    p->protow << std::left; p->protow.precision(4); ST::writef(p->protow, "{}|{>12}|{x}", p->strs[0], p->strs[1], 48879); p->protow << p->strs[2];
    return p;
}
void pool_destroy(void *pool) { delete static_cast<Pool *>(pool); }
void *priv_new(const void *pool) {
    const Pool &P = *static_cast<const Pool *>(pool);
    Priv *v = new Priv();
    v->os8.copyfmt(P.proto8); v->osw.copyfmt(P.protow);
    return v;
}
void priv_delete(void *p) { delete static_cast<Priv *>(p); }

uint64_t step_budget_for(const BOp &) { return 12000000ull; }

// One operation.  Everything it returns is folded into a digest (bytes, sizes, values, exception type - never addresses).
uint64_t do_op(const void *pool_, void *priv_, const BOp &op) {
    const Pool &P = *static_cast<const Pool *>(pool_);
    Priv &V = *static_cast<Priv *>(priv_);
    Hash h; h.u8((uint8_t)op.kind);
    const ST::string &s = P.strs[op.a % P.strs.size()];
    const ST::string &t = P.strs[op.b % P.strs.size()];
    const ST::case_sensitivity_t cs = (op.c & 1) ? ST::case_insensitive : ST::case_sensitive;
    // a needle that occurs in s (slice at character boundaries) so that searches do real work
    auto slice = [&](const ST::string &x, unsigned sel) {
        if (x.empty()) return ST::string::from_validated("x", 1);
        size_t a = sel % x.size(); while (a > 0 && ((unsigned char)x.c_str()[a] & 0xC0) == 0x80) --a;
        static const unsigned NLEN[8] = {1, 2, 3, 4, 70, 9, 17, 33};      // short needles mostly; long ones reach the paths that only run for long needles
        size_t b = std::min(x.size(), a + NLEN[(sel >> 8) % 8]); while (b < x.size() && ((unsigned char)x.c_str()[b] & 0xC0) == 0x80) ++b;
        return x.substr((ST_ssize_t)a, b - a);
    };
    try {
        switch (op.kind) {
        case 0: { ST::string n = slice(s, op.c);
                  h.u64((uint64_t)s.find(t, cs)); h.u64((uint64_t)s.find_last(t, cs)); h.u8(s.contains(t, cs)); h.u64((uint64_t)t.find(s, cs));      /* whole strings as needles, either case mode: needles of every length up to 5000 */
                  h.u64((uint64_t)s.find(n, cs)); h.u64((uint64_t)s.find(n.c_str(), cs)); h.u64((uint64_t)s.find(op.c % (s.size() + 1), n, cs)); h.u64((uint64_t)s.find('e', cs)); h.u64((uint64_t)s.find(t)); break; }
        case 1: { ST::string n = slice(s, op.c); h.u64((uint64_t)s.find_last(n, cs)); h.u64((uint64_t)s.find_last(n.c_str(), cs)); h.u64((uint64_t)s.find_last('e', cs)); h.u64((uint64_t)s.find_last(t)); h.u64((uint64_t)s.find_last(t, cs)); h.u64((uint64_t)t.find_last(s, cs)); break; }
        case 2: { ST::string n = slice(s, op.c); h.u8(s.contains(n, cs)); h.u8(s.starts_with(n, cs)); h.u8(s.ends_with(n, cs)); h.u8(s.starts_with(t)); h.u8(s.ends_with(t.c_str())); h.u8(s.contains('a')); h.u8(s.contains(t, cs)); h.u8(t.contains(s, cs)); h.u8(s.starts_with(t, cs)); h.u8(s.ends_with(t, cs)); break; }
        case 3: { int c1 = s.compare(t, cs), c2 = s.compare_n(t, op.c % 20, cs), c3 = s.compare(t.c_str()); h.u8(c1 < 0 ? 1 : c1 > 0 ? 2 : 0); h.u8(c2 < 0 ? 1 : c2 > 0 ? 2 : 0); h.u8(c3 < 0 ? 1 : c3 > 0 ? 2 : 0); h.u8(s.compare_i(t) == 0); break; }
        case 4: { h.u8(s == t); h.u8(s != t); h.u8(s < t); h.u64(ST::hash()(s)); h.u64(ST::hash_i()(s)); h.u64(std::hash<ST::string>()(t)); h.u8(ST::less_i()(s, t)); h.u8(ST::equal_i()(s, t)); break; }
        case 5: { hs(h, s.substr((ST_ssize_t)(op.c % (s.size() + 1)), op.c % 7)); hs(h, s.left(op.c % 20)); hs(h, s.right(op.c % 9)); hs(h, s.substr(0)); hs(h, s.substr(-(ST_ssize_t)(op.c % 5))); break; }
        case 6: { static const char *const SETS[] = {" \tabc", "xyz \n", " \t\r\n.,;:!?()[]{}'\"-", "aeiouAEIOU \t", "0123456789+-.eE", " ", "abcdefghijklmnopqrstuvwxyz"};      // short and long sets
                  hs(h, s.trim()); hs(h, s.trim_left(SETS[op.c % 7])); hs(h, s.trim_right(SETS[(op.c >> 3) % 7])); hs(h, s.trim(SETS[(op.c >> 6) % 7])); break; }
        case 7: { ST::string n = slice(s, op.c); hs(h, s.before_first(n, cs)); hs(h, s.after_first(n.c_str(), cs)); hs(h, s.before_last(' ')); hs(h, s.after_last(n, cs)); hs(h, s.before_first(t, cs)); hs(h, t.after_last(s, cs)); break; }
        case 8: { hs(h, s.to_upper()); hs(h, s.to_lower()); break; }
        case 9: { ST::string n = slice(s, op.c); const ST::string &rt = (s.size() > 200 && t.size() > 200) ? P.strs[1] : t;      // (long x long would be quadratic: megabytes of output)
                  hs(h, s.replace(n, rt, cs)); hs(h, s.replace(n.c_str(), "<>", cs)); hs(h, s.replace(t, n));
                  { static const char *const COMMON[] = {"e", " ", "a", "t"}; hs(h, s.replace(COMMON[op.c % 4], (op.c & 4) ? "" : "<+>", cs)); }      // many matches, length changes
                  break; }
        case 10: { ST::string n = slice(s, op.c); auto v = s.split(n, op.c % 5 ? ST_AUTO_SIZE : 2, cs); h.u64(v.size()); for (auto &x : v) hs(h, x); auto w = s.split(' '); h.u64(w.size()); for (auto &x : w) hs(h, x); auto u = s.split(", "); h.u64(u.size()); break; }
        case 11: { static const char *const DELIMS[] = {",;e", " \t\r\n.,;:!?()[]{}", "aeiou", " ,", "0123456789abcdef"};
                   auto v = s.tokenize(); h.u64(v.size()); for (auto &x : v) hs(h, x); auto w = s.tokenize(DELIMS[op.c % 5]); h.u64(w.size()); for (auto &x : w) hs(h, x); break; }
        case 12: hb(h, s.to_utf16()); break;
        case 13: hb(h, s.to_utf32()); break;
        case 14: hb(h, s.to_wchar()); break;
        case 15: hb(h, s.to_latin_1()); break;
        case 16: { ST::char_buffer b = s.to_utf8(); hb(h, b); ST::char_buffer c2; s.to_buffer(c2); hb(h, c2); break; }
        case 17: { std::string a = s.to_std_string(); h.bytes(a.data(), a.size()); std::u16string b = s.to_std_u16string(); h.bytes(b.data(), b.size() * 2); std::wstring w = s.to_std_wstring(); h.u64(w.size()); std::u32string u = s.to_std_u32string(); h.bytes(u.data(), u.size() * 4); break; }
        case 18: { const ST::string &n = P.nums[op.a % P.nums.size()]; ST::conversion_result r;
                   { int base = (op.c % 5 == 0) ? 0 : 2 + (int)(op.c % 35); h.u64((uint64_t)n.to_long_long(r, base)); h.u8(r.ok()); h.u64(n.to_ulong_long(r, base)); h.u8(r.full_match()); h.u64((uint64_t)n.to_int(base)); } h.u64((uint64_t)n.to_int()); h.u64((uint64_t)n.to_long_long(r, 0)); h.u8(r.ok()); h.u8(r.full_match()); h.u64((uint64_t)n.to_uint(16)); double d = n.to_double(r); h.bytes(&d, sizeof d); h.u8(n.to_bool()); float f = n.to_float(); h.bytes(&f, sizeof f); break; }
        case 19: { hs(h, s + t); hs(h, s + "lit"); hs(h, "lit" + t); hs(h, s + L"wé"); hs(h, u"€" + t); hs(h, s + U"\U0001F600"); break; }
        case 20: { hs(h, s + 'c'); hs(h, s + char32_t(0x20AC)); hs(h, char16_t(0xE9) + t); hs(h, L'w' + t); break; }
        case 21: { long long v = (long long)op.c * 7919 - 100000;
                   {   // a field built from the operands: every combination of flags, digit class, sign of the value and width gets its turn
                       static const char *const CLS[] = {"", "x", "X", "o", "b", "d"}; static const char *const FLG[] = {"", "#", "+", "+#", "0", "#0"};
                       std::string f = std::string("<{") + FLG[(op.c >> 2) % 6] + ((op.c >> 9) % 3 == 0 ? "12" : "") + CLS[(op.c >> 5) % 6] + "}>";
                       long long sv = (op.c & 1) ? -(long long)(op.c >> 3) - 1 : (long long)(op.c >> 3);
                       switch (op.c % 4) { case 0: hs(h, ST::format(f.c_str(), sv)); break; case 1: hs(h, ST::format(f.c_str(), (int)sv)); break; case 2: hs(h, ST::format(f.c_str(), (short)sv)); break; default: hs(h, ST::format(f.c_str(), (long)sv)); break; }
                   } hs(h, ST::format("{} {x} {#X} {>12} {<8_*}| {+} {o} {b}", v, (unsigned)op.c, op.c, (short)op.b, (int)op.a, -(int)op.c % 9999, (unsigned char)op.c, (unsigned short)(op.c & 0xFF))); hs(h, ST::string::from_int((int)v, 10 + op.c % 27)); break; }
        case 22: { double d = (double)(op.c % 100000) / 7.0 - 3000.0; unsigned prec = op.c % 9;
                   {   // composed: every precision 0..17, each of f / e / g / E, with and without width, sign flag and zero padding
                       static const char *const FC[] = {"f", "e", "g", "E", ""}; static const double VALS[] = {0.0, -0.0, 1.5, -2.25, 1e-7, 123456789.125, 1e15, -1e-300, 9.999999999, 0.1};
                       std::string f = std::string("{") + ((op.c >> 4) & 1 ? "+" : "") + ((op.c >> 5) & 1 ? "0" : "") + ((op.c >> 6) % 3 == 0 ? std::to_string(1 + (op.c >> 8) % 40) : "") + "." + std::to_string((op.c >> 14) % 18) + FC[(op.c >> 19) % 5] + "}";
                       double v = VALS[op.a % 10] * (1 + op.b % 3);
                       if ((op.a & 16) == 0) hs(h, ST::format(f.c_str(), v)); else hs(h, ST::format(f.c_str(), (float)v));
                   }
                   switch (prec) {       // different threads use different precisions
                   case 0: hs(h, ST::format("v={}", d)); break; case 1: hs(h, ST::format("v={.1f}", d)); break; case 2: hs(h, ST::format("v={.2e}", d)); break; case 3: hs(h, ST::format("v={.3}", d)); break;
                   case 4: hs(h, ST::format("v={.4f};", d)); break; case 5: hs(h, ST::format("v={.5E}", d)); break; case 6: hs(h, ST::format("v={.6f} {>14.2f}", d, -d)); break; case 7: hs(h, ST::format("{+.7f}", d)); break;
                   default: hs(h, ST::format("{.8}", (float)d)); break; }
                   hs(h, ST::string::from_double(d)); break; }
        case 23: { {   // composed: alignment, pad character, width up to 300, precision (cut) 0..40 or none
                       static const char PADS[] = {' ', '*', '0', '-', '#', '.'};
                       std::string f = std::string("[{") + ((op.c & 1) ? "<" : ">") + "_" + PADS[(op.c >> 1) % 6] + std::to_string((op.c >> 4) % 5 == 0 ? 300 - (op.c >> 7) % 60 : (op.c >> 7) % 48) + "}]";
                       hs(h, ST::format(f.c_str(), s)); hs(h, ST::format(f.c_str(), t.c_str())); hs(h, ST::format(f.c_str(), (op.c >> 13) & 1 ? L"wide \u00e9\u20ac" : L""));
                   }
                   hs(h, ST::format("[{}] [{>30}] [{<5}] {&1} {}", s, t, s.c_str(), L"wide é", std::string("std"))); hs(h, ST::format("{} {} {}", u"u16 €", U"u32 \U0001F600", s.view())); break; }
        case 24: { hs(h, ST::format_latin_1("{}|{>8}|", "latin", op.c)); break; }
        case 25: hs(h, ST::hex_encode(s.c_str(), s.size())); break;
        case 26: hs(h, ST::base64_encode(s.c_str(), s.size())); break;
        case 27: { ST::char_buffer b = ST::hex_decode(P.hex[op.a % P.hex.size()]); hb(h, b); break; }
        case 28: { ST::char_buffer b = ST::base64_decode(P.b64[op.a % P.b64.size()]); hb(h, b); char out[1024]; h.u64((uint64_t)ST::base64_decode(P.b64[op.b % P.b64.size()], out, sizeof out)); break; }
        case 29: { ST::string c1(s); ST::string c2; c2 = t; hs(h, c1); hs(h, c2); ST::string c3(std::move(c1)); hs(h, c3); break; }
        case 30: { uint64_t sum = 0; for (char ch : s) sum = sum * 131 + (unsigned char)ch; h.u64(sum); if (!s.empty()) { h.u8((uint8_t)s.at(op.c % s.size())); h.u8((uint8_t)s.front()); h.u8((uint8_t)s.back()); } for (auto it = s.rbegin(); it != s.rend(); ++it) sum += (unsigned char)*it; h.u64(sum); break; }
        case 31: { const ST::char_buffer &x = P.b8[op.a % P.b8.size()], &y = P.b8[op.b % P.b8.size()]; h.u8(x == y); h.u8(x < y); h.u8(x.compare_n(y, op.c % 12) == 0); ST::char_buffer c1(x); hb(h, c1); std::string z = y.to_std_string(); h.bytes(z.data(), z.size()); break; }
        case 32: { ST::string x(P.b16[op.a % P.b16.size()]); hs(h, x); hs(h, ST::string::from_utf16(P.b16[op.b % P.b16.size()])); break; }
        case 33: { ST::string x(P.b32[op.a % P.b32.size()]); hs(h, x); hs(h, ST::string::from_utf32(P.b32[op.b % P.b32.size()].data(), ST_AUTO_SIZE, ST::substitute_invalid)); break; }
        case 34: { ST::string x(P.bw[op.a % P.bw.size()]); hs(h, x); break; }
        case 35: { hb(h, ST::utf8_to_utf16(P.b8[op.a % P.b8.size()])); hb(h, ST::utf8_to_utf32(s.c_str(), s.size(), ST::substitute_invalid)); hb(h, ST::utf8_to_wchar(P.b8[op.b % P.b8.size()])); break; }
        case 36: { hb(h, ST::utf16_to_utf8(P.b16[op.a % P.b16.size()])); hb(h, ST::utf32_to_utf8(P.b32[op.b % P.b32.size()])); hb(h, ST::utf32_to_utf16(P.b32[op.a % P.b32.size()])); hb(h, ST::utf16_to_utf32(P.b16[op.b % P.b16.size()])); break; }
        case 37: { hb(h, ST::latin_1_to_utf8(P.b8[op.a % P.b8.size()])); hb(h, ST::utf8_to_latin_1(s.c_str(), s.size(), ST::substitute_invalid)); hb(h, ST::latin_1_to_utf16(P.b8[op.b % P.b8.size()])); break; }
        // ---- thread-private objects
        case 38: { V.ss << s << " " << op.c << ' ' << L"wé" << u"€" << std::string("x"); V.ss.append_char('-', op.c % 40); h.u64(V.ss.size()); hs(h, V.ss.to_string()); if (V.ss.size() > 3000) V.ss.truncate(op.c % 64); break; }
        case 39: { V.ss.truncate(); V.ss << (int)op.c << ',' << -(long)op.b << ',' << (unsigned long long)op.a * 1000003ull << ',' << (double)op.c / 3 << ',' << (float)op.b / 7; hs(h, V.ss.to_string()); break; }
        case 40: { hs(h, ST::string::from_int(-(int)op.c, 10)); hs(h, ST::string::from_uint(op.c, 16, true)); hs(h, ST::string::from_double(op.c / 9.0, 'e')); hs(h, ST::string::from_float((float)op.b / 3)); hs(h, ST::string::from_bool(op.c & 1)); break; }
        case 41: { V.acc += s; V.acc += "+"; V.acc += char32_t(0x20AC); V.acc += L"w"; if (V.acc.size() > 2000) V.acc = V.acc.left(op.c % 50); hs(h, V.acc); break; }
        case 42: { V.acc = t; hs(h, V.acc); V.acc = s.c_str(); V.acc.set(t.to_utf16()); hs(h, V.acc); ST::string tmp(std::move(V.acc)); V.acc = std::move(tmp); hs(h, V.acc); V.acc.clear(); break; }
        case 43: { V.acc.set(P.bw[op.a % P.bw.size()]); hs(h, V.acc); V.acc = P.b32[op.b % P.b32.size()]; hs(h, V.acc); V.acc = std::u16string(u"stl é"); hs(h, V.acc); break; }
        case 44: { V.buf = P.b8[op.a % P.b8.size()]; hb(h, V.buf); V.buf.allocate(op.c % 40, 'z'); hb(h, V.buf); ST::char_buffer m(std::move(V.buf)); hb(h, m); V.buf = std::move(m); V.buf.clear(); break; }
        case 45: { V.vec = s.split(' '); V.vec.push_back(t); h.u64(V.vec.size()); for (auto &x : V.vec) hs(h, x); V.vec.clear(); break; }
        case 46: { hs(h, ST::string::fill(op.c % 70, 'q')); break; }
        case 47: { using namespace ST::literals; hs(h, "lit8"_st); hs(h, u"lit16 é"_st); hs(h, U"lit32 \U0001F600"_st); hs(h, L"litw"_st); hb(h, "buf"_stbuf); hs(h, "{}-{}"_stfmt(op.c, s));
                   // long literals of every width, different ones in different operations (a literal is a value like any other: nothing may be remembered between two of them)
                   switch (op.c % 3) {
                   case 0: hs(h, u"a UTF-16 literal that is longer than sixteen units: €uro"_st); hs(h, U"a UTF-32 literal well beyond the twelve unit limit \U0001F600"_st); hs(h, L"wide literal number zero, also long enough for the heap"_st); hs(h, "a narrow literal of more than sixteen bytes"_st); break;
                   case 1: hs(h, u"another sixteen-bit literal, different text, still long \u00e9"_st); hs(h, U"second thirty-two bit literal with other contents"_st); hs(h, L"wide literal number one \u20ac and some more text"_st); hs(h, u8"an u8 literal beyond the small size é"_st); break;
                   default: hs(h, u"third UTF-16 text: quick brown fox jumps"_st); hs(h, U"third UTF-32 text: over the lazy dog"_st); hs(h, L"third wide text: pack my box with five dozen liquor jugs"_st); hb(h, u"sixteen-bit buffer literal, long"_stbuf); hb(h, U"thirty-two bit buffer literal"_stbuf); hb(h, L"wide buffer literal, long enough"_stbuf); break;
                   }
                   break; }
        case 48: { ST::string n = slice(s, op.c); size_t max = s.size() ? op.c % s.size() : 0; h.u64((uint64_t)s.find_last(max, n, cs)); h.u64((uint64_t)s.find_last(max, n.c_str(), cs)); h.u64((uint64_t)s.find_last(max / 2, "e")); h.u64((uint64_t)s.find_last(max, 'o', cs)); break; }
        case 49: { hs(h, ST::format("{.3f} {}", std::complex<double>(op.c / 3.0, -(double)op.b), std::complex<float>(1.5f, (float)op.a))); break; }
        case 50: { char out[2048]; h.u64((uint64_t)ST::hex_decode(P.hex[op.a % P.hex.size()], out, sizeof out)); h.u64((uint64_t)ST::base64_decode(P.b64[op.b % P.b64.size()], nullptr, 0)); break; }
        // ---- operations that fail: the error paths run concurrently too (what() is part of the digest)
        case 52: { const ST::string &x = (op.c & 1) ? P.hex[op.a % P.hex.size()] : P.b64[op.a % P.b64.size()]; ST::string bad = x + ST::string::fill(1 + op.c % 3, '!');
                   try { hb(h, ST::hex_decode(bad)); } catch (const ST::codec_error &e) { h.str(e.what()); }
                   try { hb(h, ST::base64_decode(bad)); } catch (const ST::codec_error &e) { h.str(e.what()); }
                   try { hb(h, ST::base64_decode(x.left(x.size() > 1 ? x.size() - 1 : 0))); } catch (const ST::codec_error &e) { h.str(e.what()); }
                   try { hb(h, ST::hex_decode(x + "0")); } catch (const ST::codec_error &e) { h.str(e.what()); }
                   break; }
        case 53: { std::string raw(s.c_str(), s.size()); raw += (op.c & 1) ? "\xC3" : "\xE2\x82"; raw.insert(op.c % (raw.size() + 1), 1, (char)0xFE);
                   try { hs(h, ST::string(raw)); } catch (const ST::unicode_error &e) { h.str(e.what()); }
                   try { hs(h, ST::string::from_utf8(raw.c_str(), raw.size(), ST::substitute_invalid)); } catch (const ST::unicode_error &e) { h.str(e.what()); }
                   const char16_t lone[] = {u'a', 0xD800, u'b', 0}; const char32_t big[] = {U'a', 0x110000, 0};
                   try { hs(h, ST::string(lone)); } catch (const ST::unicode_error &e) { h.str(e.what()); }
                   try { hs(h, s + big); } catch (const ST::unicode_error &e) { h.str(e.what()); }
                   try { hb(h, s.to_latin_1(false)); } catch (const ST::unicode_error &e) { h.str(e.what()); }
                   break; }
        case 54: { static const char *const BAD[] = {"{", "{} {", "{z}", "{&9}", "{} {} {}", "{.", "{_"};
                   try { hs(h, ST::format(BAD[op.c % 7], s, op.c)); } catch (const ST::bad_format &e) { h.str(e.what()); } catch (const std::out_of_range &e) { h.str(e.what()); }
                   try { hs(h, ST::format((const char *)nullptr, 1)); } catch (const std::invalid_argument &e) { h.str(e.what()); }
                   break; }
        case 55: { try { h.u8((uint8_t)s.at(s.size() + op.c % 4)); } catch (const std::out_of_range &e) { h.str(e.what()); }
                   try { h.u8((uint8_t)P.b8[op.a % P.b8.size()].at(1000 + op.c % 7)); } catch (const std::out_of_range &e) { h.str(e.what()); }
                   try { hs(h, ST::hex_encode(nullptr, 4)); } catch (const std::invalid_argument &e) { h.str(e.what()); }
                   break; }
        default: if (op.kind >= 56) { do_op2(P, V, op, h); break; }
                 { auto v = s.split(','); ST::string_stream j; for (size_t i = 0; i < v.size(); i++) { if (i) j << ','; j << v[i]; } hs(h, j.to_string()); h.u8(j.to_string() == s); break; }
        }
    } catch (const ST::unicode_error &) { h.str("unicode_error"); }
    catch (const ST::codec_error &) { h.str("codec_error"); }
    catch (const ST::bad_format &) { h.str("bad_format"); }
    catch (const std::out_of_range &) { h.str("out_of_range"); }
    catch (const std::bad_alloc &) { h.str("bad_alloc"); }
    catch (const std::exception &) { h.str("std::exception"); }
    return h.h;
}

} // namespace B
