// Engine B: the shared immutable pool and the thread-private objects (shared by ops.cpp and ops2.cpp)
#pragma once
#include "simb.h"

#include <string_theory/string>
#include <string_theory/string_stream>
#include <string_theory/format>
#include <string_theory/codecs>
#include <string_theory/utf_conversion>
#include <string_theory/iostream>
#include <string_theory/stdio>
#include <sstream>

namespace B {

struct Pool {
    std::vector<ST::string> strs;
    std::vector<ST::char_buffer> b8;
    std::vector<ST::utf16_buffer> b16;
    std::vector<ST::utf32_buffer> b32;
    std::vector<ST::wchar_buffer> bw;
    std::vector<ST::string> hex, b64, nums;
    // prototype std streams the main thread has configured *and already used as sinks*: every thread's own streams take their formatting state
    // from them with copyfmt() (how an application hands one house style to many streams)
    std::ostringstream proto8; std::wostringstream protow;
};
struct Priv {                       // thread-private objects that persist over the thread's program
    ST::string acc;
    ST::string_stream ss;
    ST::char_buffer buf;
    std::vector<ST::string> vec;
    std::ostringstream os8; std::wostringstream osw;      // the thread's own long-lived streams; their formatting state was copied from the prototypes
};

// a sink that is unwell once: its k-th transfer (xsputn / overflow / sync) reports failure, everything before and after it works.  Never allocates
// inside a transfer that fails (a std::basic_stringbuf underneath does the storing).
template <class Ch> struct FlakyBuf : std::basic_stringbuf<Ch> {
    typedef std::basic_stringbuf<Ch> B; typedef typename B::int_type int_type; typedef typename B::traits_type traits;
    int calls = 0, fail_at = 1;
    std::streamsize xsputn(const Ch *s, std::streamsize n) override { if (++calls == fail_at) return 0; return B::xsputn(s, n); }
    int_type overflow(int_type c) override { if (++calls == fail_at) return traits::eof(); return B::overflow(c); }
    int sync() override { if (++calls == fail_at) return -1; return B::sync(); }
};
// one writef to such a sink, in either exception mode of the stream; what arrived, the state bits and the exception type go into the digest
template <class Ch, class... A> static inline void flaky_writef(simrt::Hash &h, int fail_at, bool throwing, const char *fmt, const A &...a) {
    FlakyBuf<Ch> fb; fb.fail_at = fail_at; std::basic_ostream<Ch> os(&fb);
    if (throwing) os.exceptions(std::ios_base::badbit);
    try { ST::writef(os, fmt, a...); os.flush(); h.u8(0); }
    catch (const std::ios_base::failure &) { h.u8(1); }
    catch (const std::exception &) { h.u8(2); }
    os.exceptions(std::ios_base::goodbit);
    h.u8((uint8_t)os.rdstate()); std::basic_string<Ch> got = fb.str(); h.u64(got.size()); h.bytes(got.data(), got.size() * sizeof(Ch));
}

static inline void hs(simrt::Hash &h, const ST::string &s) { h.u64(s.size()); h.bytes(s.c_str(), s.size()); }
template <class T> static inline void hb(simrt::Hash &h, const ST::buffer<T> &b) { h.u64(b.size()); h.bytes(b.data(), b.size() * sizeof(T)); }
template <class C> static inline void hstd(simrt::Hash &h, const std::basic_string<C> &b) { h.u64(b.size()); h.bytes(b.data(), b.size() * sizeof(C)); }

void do_op2(const Pool &P, Priv &V, const BOp &op, simrt::Hash &h);

} // namespace B
