// Engine B: the shared immutable pool and the thread-private objects (shared by ops.cpp and ops2.cpp)
#pragma once
#include "simb.h"

#include <string_theory/string>
#include <string_theory/string_stream>
#include <string_theory/format>
#include <string_theory/codecs>
#include <string_theory/utf_conversion>
#include <string_theory/iostream>
#include <string_theory/stdio>
#include <sstream>

namespace B {

struct Pool {
    std::vector<ST::string> strs;
    std::vector<ST::char_buffer> b8;
    std::vector<ST::utf16_buffer> b16;
    std::vector<ST::utf32_buffer> b32;
    std::vector<ST::wchar_buffer> bw;
    std::vector<ST::string> hex, b64, nums;
    // prototype std streams the main thread has configured *and already used as sinks*: every thread's own streams take their formatting state
    // from them with copyfmt() (how an application hands one house style to many streams)
    std::ostringstream proto8; std::wostringstream protow;
};
struct Priv {                       // thread-private objects that persist over the thread's program
    ST::string acc;
    ST::string_stream ss;
    ST::char_buffer buf;
    std::vector<ST::string> vec;
    std::ostringstream os8; std::wostringstream osw;      // the thread's own long-lived streams; their formatting state was copied from the prototypes
};

static inline void hs(simrt::Hash &h, const ST::string &s) { h.u64(s.size()); h.bytes(s.c_str(), s.size()); }
template <class T> static inline void hb(simrt::Hash &h, const ST::buffer<T> &b) { h.u64(b.size()); h.bytes(b.data(), b.size() * sizeof(T)); }
template <class C> static inline void hstd(simrt::Hash &h, const std::basic_string<C> &b) { h.u64(b.size()); h.bytes(b.data(), b.size() * sizeof(C)); }

void do_op2(const Pool &P, Priv &V, const BOp &op, simrt::Hash &h);

} // namespace B
