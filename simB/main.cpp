// Engine B command line: batch | dump | shrink | replay
#include "simb.h"
#include <algorithm>
#include <clocale>
#include <fcntl.h>
#include <cstdlib>
#include <fstream>
#include <functional>
#include <set>
#include <sstream>
#include <sys/wait.h>
#include <unistd.h>

namespace B {

uint64_t g_index = 0;

std::string plan_to_text(const Plan &p) {
    char b[200]; std::string s;
    std::snprintf(b, sizeof b, "knobs seed=%llu pool_seed=%llu sched_seed=%llu mean_gap=%u max_preemptions=%u locale=%u victim=%u victim_op=%u runner=%u offset=%u fresh=%u threads=%zu\n", (unsigned long long)p.seed,
                  (unsigned long long)p.pool_seed, (unsigned long long)p.sched_seed, p.mean_gap, p.max_preemptions, p.locale, p.victim, p.victim_op, p.runner, p.offset, p.fresh, p.programs.size()); s += b;
    for (size_t t = 0; t < p.programs.size(); t++)
        for (const BOp &o : p.programs[t]) { std::snprintf(b, sizeof b, "op thread=%zu kind=%s a=%u b=%u c=%u fault=%u\n", t + 1, bop_name(o.kind), o.a, o.b, o.c, o.fault); s += b; }
    for (const Switch &w : p.switches) { std::snprintf(b, sizeof b, "switch event=%llu thread=%u\n", (unsigned long long)w.event, w.thread); s += b; }
    return s;
}
static bool kv(const char *line, const char *key, long long &out) {
    std::string pat = std::string(" ") + key + "="; const char *q = std::strstr(line, pat.c_str());
    if (!q) return false;
    q += pat.size();
    out = (*q == '-') ? std::strtoll(q, nullptr, 10) : (long long)std::strtoull(q, nullptr, 10);      // 64-bit seeds do not fit a signed parse
    return true;
}
bool plan_from_text(const std::string &t, Plan &p, std::string &err) {
    p = Plan(); size_t pos = 0;
    while (pos < t.size()) {
        size_t e = t.find('\n', pos); if (e == std::string::npos) e = t.size();
        std::string line = t.substr(pos, e - pos); pos = e + 1;
        if (line.empty()) continue;
        long long v; const char *l = line.c_str() + line.find(' ');
        if (!line.compare(0, 6, "knobs ")) {
            if (kv(l, "seed", v)) p.seed = (uint64_t)v; if (kv(l, "pool_seed", v)) p.pool_seed = (uint64_t)v; if (kv(l, "sched_seed", v)) p.sched_seed = (uint64_t)v;
            if (kv(l, "mean_gap", v)) p.mean_gap = (uint32_t)v; if (kv(l, "max_preemptions", v)) p.max_preemptions = (uint32_t)v; if (kv(l, "threads", v)) p.programs.resize((size_t)v);
            if (kv(l, "locale", v)) p.locale = (uint32_t)v; if (kv(l, "fresh", v)) p.fresh = (uint32_t)v; if (kv(l, "victim", v)) p.victim = (uint32_t)v; if (kv(l, "victim_op", v)) p.victim_op = (uint32_t)v; if (kv(l, "runner", v)) p.runner = (uint32_t)v; if (kv(l, "offset", v)) p.offset = (uint32_t)v;
        } else if (!line.compare(0, 3, "op ")) {
            BOp o; size_t th = 1; if (kv(l, "thread", v)) th = (size_t)v;
            const char *k = std::strstr(l, " kind="); if (!k) { err = "op without kind"; return false; }
            k += 6; std::string name(k, std::strcspn(k, " "));
            int kind = -1; for (int i = 0; i <= bop_count(); i++) if (name == bop_name(i)) kind = i;
            if (name == "destroy_private") kind = bop_count();
            if (kind < 0) { err = "unknown op " + name; return false; }
            o.kind = (uint16_t)kind; if (kv(l, "a", v)) o.a = (uint32_t)v; if (kv(l, "b", v)) o.b = (uint32_t)v; if (kv(l, "c", v)) o.c = (uint32_t)v; if (kv(l, "fault", v)) o.fault = (uint32_t)v;
            if (th < 1) th = 1; if (p.programs.size() < th) p.programs.resize(th);
            p.programs[th - 1].push_back(o);
        } else if (!line.compare(0, 7, "switch ")) { Switch w{0, 1}; if (kv(l, "event", v)) w.event = (uint64_t)v; if (kv(l, "thread", v)) w.thread = (uint8_t)v; p.switches.push_back(w); }
        else { err = "bad line: " + line; return false; }
    }
    return true;
}

Plan gen_plan(uint64_t runseed) {
    Plan p; simrt::Rng r; r.seed(runseed);
    p.seed = runseed; p.pool_seed = 1 + r.below(6); p.sched_seed = r.next();
    unsigned n = 2 + r.below(3);
    unsigned strategy = r.below(10);      // 0 serial, 1-2 rare, 3-4 medium, 5-7 frequent, 8-9 window-targeted
    p.mean_gap = strategy == 0 || strategy >= 8 ? 0 : strategy <= 2 ? 2000 + r.below(6000) : strategy <= 4 ? 150 + r.below(900) : 3 + r.below(40);
    p.max_preemptions = 1 + r.below(64);
    p.locale = r.below(2);
    int nk = bop_count();
    // fault knob: in a third of the runs one operation in about ten has one of its allocations fail (std::bad_alloc becomes part of that
    // operation's digest; the solo reference run injects the same fault): code that only runs on a failure path runs concurrently too
    const unsigned fault_rate = r.below(3) == 0 ? 6 + r.below(10) : 0;
    bool focus = r.below(3) == 0; unsigned fk1 = r.below((uint32_t)nk), fk2 = r.below((uint32_t)nk);
    p.programs.resize(n);
    for (unsigned t = 0; t < n; t++) {
        unsigned len = 2 + r.below(7);
        for (unsigned i = 0; i < len; i++) {
            BOp o; o.kind = (uint16_t)r.below((uint32_t)nk);
            if (focus && r.below(2)) o.kind = (uint16_t)(r.below(2) ? fk1 : fk2);
            o.a = r.below(64); o.b = r.below(64); o.c = r.below(1 << 20);
            if (fault_rate && r.below(fault_rate) == 0) o.fault = 1 + (r.below(2) ? 0 : r.below(6));
            p.programs[t].push_back(o);
        }
    }
    if (strategy >= 8) {
        // window-targeted: one thread is stopped at a seeded event inside one of its operations while another runs a whole operation
        p.victim = 1 + r.below(n); do { p.runner = 1 + r.below(n); } while (p.runner == p.victim);
        p.victim_op = r.below((uint32_t)p.programs[p.victim - 1].size());
        p.offset = r.below(3) ? 1 + r.below(60) : 1 + r.below(3000);
        if (r.below(2)) p.programs[p.runner - 1][0].kind = p.programs[p.victim - 1][p.victim_op].kind;      // same kind on both sides half of the time
    }
    p.fresh = r.below(4) == 0;      // (drawn last: the plans of earlier versions are unchanged)
    return p;
}

struct Shared { const Plan *plan; void *pool; std::vector<void *> privs; std::vector<std::vector<uint64_t>> digests; uint64_t faults_planned = 0, faults_fired = 0; };

static void thread_body(int tid, void *arg) {
    Shared &S = *static_cast<Shared *>(arg);
    const std::vector<BOp> &prog = S.plan->programs[(size_t)tid - 1];
    simrt::SutScope sut;
    void *priv = S.privs[(size_t)tid - 1];
    for (size_t i = 0; i < prog.size(); i++) {
        rt_op_begin((int)i, prog[i].kind, step_budget_for(prog[i]));
        simrt::heap_op_begin(prog[i].fault);
        uint64_t d = do_op(S.pool, priv, prog[i]);
        simrt::heap_op_end();
        rt_op_end();
        if (prog[i].fault) { S.faults_planned++; if (simrt::heap_fault_fired()) S.faults_fired++; }      // (outside the operation window: harness bookkeeping is not an event)
        S.digests[(size_t)tid - 1][i] = d;
    }
    rt_op_begin((int)prog.size(), bop_count(), 3000000);      // destruction of the thread's private objects is an operation too
    priv_delete(priv);
    rt_op_end();
}

RunResult run_plan(const Plan &p, Totals *tot) {
    RunResult rr;
    size_t n = p.programs.size();
    if (n < 1 || n > MAXT - 1) { rr.viol.set = true; rr.viol.cls = "internal"; rr.viol.msg = "bad thread count"; return rr; }
    simrt::fatal_context("prop=C20 i=%llu runseed=%llu site=setup", (unsigned long long)g_index, (unsigned long long)p.seed);
    // placement policy of the allocator (a function of the plan): in half of the runs a released block goes to the next request of the same
    // size at once, whichever thread makes it - one thread's text then sits where another thread's text was a moment ago
    simrt::heap_begin_run(((p.sched_seed >> 5) & 1) ? simrt::HEAP_SHARED_LIFO : simrt::HEAP_IMMEDIATE, 0xA5, 0xDD);
    // configuration knob: the process locale.  C.UTF-8 formats and parses numbers exactly like "C" (digests are unaffected), but code that
    // "pins" the locale around a libc call only does so when the current one is not "C".  (Every plan runs in its own forked child.)
    if (p.locale) { if (!std::setlocale(LC_ALL, "C.UTF-8")) std::setlocale(LC_ALL, "C.utf8"); }
    Shared S; S.plan = &p;
    { simrt::SutScope sut; S.pool = pool_build(p.pool_seed); }
    S.digests.resize(n);
    size_t nops = 0;
    for (size_t t = 0; t < n; t++) { S.digests[t].assign(p.programs[t].size(), 0); nops += p.programs[t].size(); }
    SchedParams sp; sp.seed = p.sched_seed; sp.mean_gap = p.mean_gap; sp.max_preemptions = p.max_preemptions;
    if (!p.switches.empty()) { sp.mode = 1; sp.list = p.switches.data(); sp.nlist = p.switches.size(); }
    else if (p.victim) { sp.victim = (int)p.victim; sp.victim_op = (int)p.victim_op; sp.runner = (int)p.runner; sp.offset = p.offset; }
    simrt::fatal_context("prop=C20 i=%llu runseed=%llu site=concurrent_phase", (unsigned long long)g_index, (unsigned long long)p.seed);
    { simrt::SutScope sut; for (size_t t = 0; t < n; t++) S.privs.push_back(priv_new(S.pool)); }
    rt_begin_run((int)n, sp);
    rt_run_threads(thread_body, &S);
    RaceReport race; std::vector<Switch> rec(4096); size_t nrec = 0;
    rt_end_run(&rr.stats, &race, rec.data(), &nrec, rec.size());
    rec.resize(nrec); rr.recorded = rec;
    // reference: every program alone (after the concurrent phase, so that first-use effects happen under concurrency)
    simrt::fatal_context("prop=C20 i=%llu runseed=%llu site=solo_phase", (unsigned long long)g_index, (unsigned long long)p.seed);
    Viol &V = rr.viol;
    if (race.found) {
        V.set = true; V.cls = "data_race";
        V.site = std::string("race(") + bop_name(race.kind_a) + "," + bop_name(race.kind_b) + ")";
        char m[400];
        std::snprintf(m, sizeof m, "%s by thread %d in op #%d (%s, event %llu) and %s by thread %d in op #%d (%s, event %llu) on the same bytes without ordering; location: %s",
                      race.write_a ? "write" : "read", race.tid_a, race.op_a, race.kind_a == bop_count() ? "destroy_private" : bop_name(race.kind_a), (unsigned long long)race.event_a,
                      race.write_b ? "write" : "read", race.tid_b, race.op_b, race.kind_b == bop_count() ? "destroy_private" : bop_name(race.kind_b), (unsigned long long)race.event_b, race.where);
        V.msg = m;
    }
    for (size_t t = 0; t < n; t++) {
        simrt::SutScope sut;
        void *priv = priv_new(S.pool);
        for (size_t i = 0; i < p.programs[t].size(); i++) {
            simrt::heap_op_begin(p.programs[t][i].fault);
            uint64_t d = do_op(S.pool, priv, p.programs[t][i]);
            simrt::heap_op_end();
            // From the first operation of a program that carries an allocation fault onwards its results are not compared: "the k-th allocation of
            // this operation" is a different allocation when correctly synchronised shared state (a cache that hit in one run and missed in the
            // other) changes how many allocations the operation makes - and what the thread's own objects hold afterwards follows from that.
            bool after_fault = false; for (size_t j = 0; j <= i; j++) after_fault |= p.programs[t][j].fault != 0;
            if (d != S.digests[t][i] && !V.set && !after_fault) {
                V.set = true; V.cls = "result_divergence"; V.site = std::string("diverge(") + bop_name(p.programs[t][i].kind) + ")";
                V.msg = "thread " + std::to_string(t + 1) + " op #" + std::to_string(i) + " (" + bop_name(p.programs[t][i].kind) + ") produced a different result under the concurrent schedule than when run alone";
            }
        }
        priv_delete(priv);
    }
    // the stricter reading of "the same results it obtains when run alone": alone in a process of its own, where nothing another thread did - or
    // left behind in a memo, a cache, a lazily built table - can have played a part.  (The in-process reference above runs after the concurrent
    // phase and shares whatever process-wide state that phase built up.)
    if (!p.expected.empty() && !V.set)
        for (size_t t = 0; t < n && t < p.expected.size() && !V.set; t++)
            for (size_t i = 0; i < p.programs[t].size() && i < p.expected[t].size(); i++) {
                if (p.programs[t][i].fault) break;      // (see above)
                if (S.digests[t][i] != p.expected[t][i]) {
                    V.set = true; V.cls = "result_divergence"; V.site = std::string("diverge(") + bop_name(p.programs[t][i].kind) + ")";
                    V.msg = "thread " + std::to_string(t + 1) + " op #" + std::to_string(i) + " (" + bop_name(p.programs[t][i].kind) + ") produced a different result next to the other threads than the same program produces alone in a process of its own";
                    break;
                }
            }
    { simrt::SutScope sut; pool_destroy(S.pool); }
    size_t live = simrt::heap_end_run(); (void)live;
    char d[200]; simrt::HeapViolation hv = simrt::heap_take_violation(d, sizeof d);
    if (!V.set && hv != simrt::HV_NONE) { V.set = true; V.cls = hv == simrt::HV_DOUBLE_FREE ? "double_free" : hv == simrt::HV_INVALID_FREE ? "invalid_free" : hv == simrt::HV_OVERRUN ? "out_of_bounds_write" : "form_mismatch"; V.site = "heap"; V.msg = d; }
    simrt::Hash hp, hsch;
    for (size_t t = 0; t < n; t++) { hp.u8(0xFF); for (const BOp &o : p.programs[t]) hp.u8((uint8_t)o.kind); }
    hsch.u64(hp.h); for (const Switch &w : rr.recorded) { hsch.u64(w.event); hsch.u8(w.thread); }
    for (size_t t = 0; t < n; t++) for (uint64_t dg : S.digests[t]) hp.u64(dg);
    hp.u64(rr.stats.events);
    rr.sig = hp.h ^ hsch.h; rr.sched_sig = hsch.h;
    rr.nontrivial = rr.stats.preemptions > 0;
    if (tot) {
        tot->runs++; tot->events += rr.stats.events; tot->accesses += rr.stats.accesses; tot->preemptions += rr.stats.preemptions; tot->switches += rr.stats.switches;
        tot->ops += nops; tot->sync_ops += rr.stats.sync_ops;
        tot->strategy[p.victim ? 4 : p.mean_gap == 0 ? 0 : p.mean_gap >= 2000 ? 1 : p.mean_gap >= 150 ? 2 : 3]++;
        tot->alloc_faults_planned += S.faults_planned; tot->alloc_faults_fired += S.faults_fired;
        tot->locale_runs += p.locale ? 1 : 0; tot->libc_reads += rr.stats.libc_state_reads; tot->libc_writes += rr.stats.libc_state_writes;
    }
    return rr;
}

} // namespace B

using namespace B;

static uint64_t run_seed(uint64_t base, uint64_t index) { return simrt::mix(base, 20, index); }
static std::string one_line(std::string s) { for (auto &ch : s) if (ch == '\n' || ch == '\r') ch = ' '; return s; }
static std::string json_escape(const std::string &s) {
    std::string o;
    for (unsigned char ch : s) { if (ch == '"' || ch == '\\') { o += '\\'; o += (char)ch; } else if (ch < 0x20 || ch >= 0x7F) { char b[8]; std::snprintf(b, sizeof b, "\\u%04x", ch); o += b; } else o += (char)ch; }
    return o;
}
static const char *arg(int argc, char **argv, const char *name, const char *dflt) { for (int i = 2; i + 1 < argc; i++) if (!std::strcmp(argv[i], name)) return argv[i + 1]; return dflt; }
static bool flag(int argc, char **argv, const char *name) { for (int i = 2; i < argc; i++) if (!std::strcmp(argv[i], name)) return true; return false; }

#ifdef SIM_GCOV
extern "C" void __gcov_dump(void);
#endif
struct Outcome { std::string cls, site, msg; bool violated = false; std::vector<Switch> recorded; };
// every plan execution happens in a forked child: function-local statics and lazily built tables are fresh, so
// first-use races are visible in every run, and a corrupted process cannot influence the next run
// one thread's program, alone, in a process of its own: digests through a pipe (empty on any trouble: then that reference is simply not used)
static std::vector<uint64_t> solo_in_own_process(const Plan &p, size_t t) {
    std::vector<uint64_t> d; int fd[2];
    if (pipe(fd) != 0) return d;
    std::fflush(stdout);
    pid_t pid = fork();
    if (pid == 0) {
        close(fd[0]); alarm(30);
        { int nul = open("/dev/null", O_WRONLY); if (nul >= 0) { dup2(nul, 1); close(nul); } }      // a fatal event here is not a verdict: the reference is then not used
        simrt::heap_begin_run(simrt::HEAP_IMMEDIATE, 0xA5, 0xDD);
        if (p.locale) { if (!std::setlocale(LC_ALL, "C.UTF-8")) std::setlocale(LC_ALL, "C.utf8"); }
        std::vector<uint64_t> out;
        {
            simrt::SutScope sut;
            void *pool = pool_build(p.pool_seed); void *priv = priv_new(pool);
            out.reserve(p.programs[t].size());      // (nothing of the harness allocates while a fault plan is armed)
            for (const BOp &o : p.programs[t]) { simrt::heap_op_begin(o.fault); const uint64_t dg = do_op(pool, priv, o); simrt::heap_op_end(); out.push_back(dg); }
        }
        ssize_t w = write(fd[1], out.data(), out.size() * sizeof(uint64_t)); (void)w;
        _exit(0);
    }
    close(fd[1]);
    uint64_t v; while (read(fd[0], &v, sizeof v) == (ssize_t)sizeof v) d.push_back(v);
    close(fd[0]); int st = 0; waitpid(pid, &st, 0);
    if (!WIFEXITED(st) || WEXITSTATUS(st) != 0 || d.size() != p.programs[t].size()) d.clear();
    return d;
}
static Outcome run_forked(const Plan &p0, std::string *line_out = nullptr, Totals *tot = nullptr) {
    Plan p = p0;
    if (p.fresh) { p.expected.resize(p.programs.size()); for (size_t t = 0; t < p.programs.size(); t++) p.expected[t] = solo_in_own_process(p, t); }
    if (tot) { if (p.fresh) { tot->fresh_reference_runs++; for (auto &e : p.expected) if (!e.empty()) tot->reference_processes++; } if ((p.sched_seed >> 5) & 1) tot->shared_lifo_runs++; }
    Outcome out; int fd[2];
    if (pipe(fd) != 0) { out.cls = "infra"; return out; }
    std::fflush(stdout);
    pid_t pid = fork();
    if (pid == 0) {
        close(fd[0]); dup2(fd[1], 1); close(fd[1]); alarm(30);
        Totals t; RunResult rr = run_plan(p, &t);
        std::printf("T %llu %llu %llu %llu %llu %llu %llu %llu %llu %llu %llu %llu %llu %llu %llu %llu %llu\n", (unsigned long long)t.events, (unsigned long long)t.accesses, (unsigned long long)t.preemptions, (unsigned long long)t.switches,
                    (unsigned long long)t.ops, (unsigned long long)t.sync_ops, (unsigned long long)t.strategy[0], (unsigned long long)t.strategy[1], (unsigned long long)t.strategy[2], (unsigned long long)t.strategy[3],
                    (unsigned long long)t.strategy[4], (unsigned long long)rr.sig, (unsigned long long)t.locale_runs, (unsigned long long)t.libc_reads, (unsigned long long)t.libc_writes,
                    (unsigned long long)t.alloc_faults_planned, (unsigned long long)t.alloc_faults_fired);
        const uint8_t *m; int dim; rt_overlap_matrix(&m, &dim);
        std::printf("O"); for (int i = 0; i < dim * dim; i++) if (m[i]) std::printf(" %d", i); std::printf("\n");
        std::printf("W"); for (const Switch &w : rr.recorded) std::printf(" %llu:%u", (unsigned long long)w.event, w.thread); std::printf("\n");
        std::printf("N %d %016llx\n", rr.nontrivial ? 1 : 0, (unsigned long long)rr.sched_sig);
        if (rr.viol.set) std::printf("V class=%s site=%s msg=%s\n", rr.viol.cls.c_str(), one_line(rr.viol.site).c_str(), one_line(rr.viol.msg).c_str()); else std::printf("OK\n");
        std::fflush(stdout);
#ifdef SIM_GCOV
        __gcov_dump();        // reach measurement build only (tools/coverage.py)
#endif
        _exit(0);
    }
    close(fd[1]);
    std::string buf; char tmp[4096]; ssize_t n;
    while ((n = read(fd[0], tmp, sizeof tmp)) > 0) buf.append(tmp, (size_t)n);
    close(fd[0]); int st = 0; waitpid(pid, &st, 0);
    if (line_out) *line_out = buf;
    auto field = [&](const std::string &src, const char *key) {
        std::string k = std::string(" ") + key + "="; size_t p0 = src.find(k);
        if (p0 == std::string::npos) return std::string();
        p0 += k.size(); size_t e = src.find_first_of(" \n", p0);
        return src.substr(p0, e == std::string::npos ? std::string::npos : e - p0);
    };
    size_t wpos = buf.find("\nW");
    if (wpos != std::string::npos) {
        std::istringstream is(buf.substr(wpos + 2, buf.find('\n', wpos + 1) - wpos - 2)); std::string tok;
        while (is >> tok) { size_t c = tok.find(':'); if (c != std::string::npos) out.recorded.push_back({std::strtoull(tok.c_str(), nullptr, 10), (uint8_t)std::atoi(tok.c_str() + c + 1)}); }
    }
    size_t vpos = buf.find("\nV class=");
    if (vpos != std::string::npos) {
        std::string vl = buf.substr(vpos + 1, buf.find('\n', vpos + 1) - vpos - 1);
        out.violated = true; out.cls = field(vl, "class"); out.site = field(vl, "site"); size_t m = vl.find(" msg="); if (m != std::string::npos) out.msg = vl.substr(m + 5);
    } else if (buf.find("FATAL ") != std::string::npos) {
        std::string fl = buf.substr(buf.find("FATAL ")); fl = fl.substr(0, fl.find('\n'));
        out.violated = true; out.cls = field(fl, "class"); out.site = field(fl, "site"); size_t m = fl.find(" detail="); if (m != std::string::npos) out.msg = fl.substr(m + 8);
    } else if (buf.find("UNSUPPORTED") != std::string::npos) { out.violated = false; out.cls = "unsupported"; out.msg = buf; }
    else if (buf.find("\nOK") != std::string::npos) out.violated = false;
    else { out.violated = true; out.cls = WIFSIGNALED(st) ? "signal" : "died"; out.site = "?"; }
    if (tot) {
        size_t tp = buf.find("T ");
        if (tp == 0) {
            unsigned long long v[17] = {0}; std::sscanf(buf.c_str() + 2, "%llu %llu %llu %llu %llu %llu %llu %llu %llu %llu %llu %llu %llu %llu %llu %llu %llu", &v[0], &v[1], &v[2], &v[3], &v[4], &v[5], &v[6], &v[7], &v[8], &v[9], &v[10], &v[11], &v[12], &v[13], &v[14], &v[15], &v[16]);
            tot->locale_runs += v[12]; tot->libc_reads += v[13]; tot->libc_writes += v[14]; tot->alloc_faults_planned += v[15]; tot->alloc_faults_fired += v[16];
            tot->runs++; tot->events += v[0]; tot->accesses += v[1]; tot->preemptions += v[2]; tot->switches += v[3]; tot->ops += v[4]; tot->sync_ops += v[5];
            for (int i = 0; i < 5; i++) tot->strategy[i] += v[6 + i];
        } else tot->runs++;
    }
    return out;
}

static Plan shrink(const Plan &orig, const Outcome &want, unsigned &tries) {
    Plan best = orig;
    auto still = [&](const Plan &c) { ++tries; Outcome o = run_forked(c); return o.violated && o.cls == want.cls; };
    bool progress = true;
    while (progress && tries < 600) {
        progress = false;
        for (size_t t = best.programs.size(); t-- > 0 && best.programs.size() > 2;) { Plan c = best; c.programs.erase(c.programs.begin() + t); c.switches.clear(); if (still(c)) { best = c; progress = true; } }
        for (size_t t = 0; t < best.programs.size(); t++)
            for (size_t i = best.programs[t].size(); i-- > 0;) {
                if (best.programs[t].size() <= 1) break;
                Plan c = best; c.programs[t].erase(c.programs[t].begin() + i); c.switches.clear(); if (still(c)) { best = c; progress = true; }
            }
        for (size_t t = 0; t < best.programs.size(); t++)
            for (size_t i = 0; i < best.programs[t].size(); i++)
                if (best.programs[t][i].fault) { Plan c = best; c.programs[t][i].fault = 0; c.switches.clear(); if (still(c)) { best = c; progress = true; } }
        if (best.mean_gap) { Plan c = best; c.mean_gap = 0; c.switches.clear(); if (still(c)) { best = c; progress = true; } }
        if (best.victim) { Plan c = best; c.victim = 0; c.switches.clear(); if (still(c)) { best = c; progress = true; } }
    }
    // make the schedule explicit and drop switches
    Outcome o = run_forked(best); ++tries;
    if (o.violated && o.cls == want.cls && !o.recorded.empty()) {
        Plan c = best; c.switches = o.recorded;
        if (still(c)) {
            best = c;
            for (size_t i = best.switches.size(); i-- > 1 && tries < 900;) { Plan d = best; d.switches.erase(d.switches.begin() + i); if (still(d)) best = d; }
        }
    }
    return best;
}

static bool write_replay(const std::string &path, const Plan &p, const Outcome &o, uint64_t base, uint64_t index, unsigned tries, const Plan &orig) {
    std::ofstream f(path); if (!f) return false;
    size_t ops0 = 0, ops1 = 0; for (auto &pr : orig.programs) ops0 += pr.size(); for (auto &pr : p.programs) ops1 += pr.size();
    const char *variant = std::getenv("SIM_VARIANT");
    f << "{\n  \"engine\": \"simB\",\n  \"variant\": \"" << (variant && *variant ? variant : "sched") << "\",\n  \"property\": \"C20\",\n  \"verif_seed\": " << base << ",\n  \"index\": " << index << ",\n  \"run_seed\": " << p.seed
      << ",\n  \"class\": \"" << json_escape(o.cls) << "\",\n  \"site\": \"" << json_escape(o.site) << "\",\n  \"message\": \"" << json_escape(o.msg) << "\",\n  \"original\": {\"threads\": " << orig.programs.size()
      << ", \"ops\": " << ops0 << "},\n  \"minimised\": {\"threads\": " << p.programs.size() << ", \"ops\": " << ops1 << ", \"switches\": " << p.switches.size() << "},\n  \"shrink_executions\": " << tries << ",\n  \"plan\": [\n";
    std::istringstream is(plan_to_text(p)); std::string line; bool first = true;
    while (std::getline(is, line)) { f << (first ? "    \"" : ",\n    \"") << json_escape(line) << "\""; first = false; }
    f << "\n  ]\n}\n"; return (bool)f;
}
static bool read_replay(const std::string &path, Plan &p, std::string &cls, std::string &err) {
    std::ifstream f(path); if (!f) { err = "cannot open " + path; return false; }
    std::stringstream ss; ss << f.rdbuf(); std::string all = ss.str();
    size_t c0 = all.find("\"class\": \""); if (c0 != std::string::npos) { c0 += 10; cls = all.substr(c0, all.find('"', c0) - c0); }
    size_t p0 = all.find("\"plan\": ["); if (p0 == std::string::npos) { err = "no plan"; return false; }
    size_t e = all.find(']', p0); std::string body = all.substr(p0 + 9, e - p0 - 9), text; size_t pos = 0;
    while ((pos = body.find('"', pos)) != std::string::npos) { size_t q = body.find('"', pos + 1); if (q == std::string::npos) break; text += body.substr(pos + 1, q - pos - 1) + "\n"; pos = q + 1; }
    return plan_from_text(text, p, err);
}

int main(int argc, char **argv) {
    if (argc < 2) { std::fprintf(stderr, "usage: simB batch|dump|shrink|replay ...\n"); return 2; }
    std::setvbuf(stdout, nullptr, _IOLBF, 0);
    simrt::fatal_install();
    std::string cmd = argv[1];
    uint64_t base = std::strtoull(arg(argc, argv, "--seed", "1"), nullptr, 10);
    if (cmd == "batch") {
        uint64_t start = std::strtoull(arg(argc, argv, "--start", "0"), nullptr, 10), count = std::strtoull(arg(argc, argv, "--count", "1000"), nullptr, 10);
        uint64_t stride = std::strtoull(arg(argc, argv, "--stride", "1"), nullptr, 10);
        double max_s = std::atof(arg(argc, argv, "--max-seconds", "0")); bool per_run = flag(argc, argv, "--per-run");
        Totals tot; std::set<uint64_t> distinct; std::set<int> overlap; uint64_t viols = 0, nt = 0, unsupported = 0;
        struct timespec t0; clock_gettime(CLOCK_MONOTONIC, &t0);
        for (uint64_t n = 0; n < count; n++) {
            uint64_t i = start + n * stride, rs = run_seed(base, i);
            Plan p = gen_plan(rs); g_index = i;
            std::string raw; Outcome o = run_forked(p, &raw, &tot);
            size_t np = raw.find("\nN ");
            bool nontrivial = false; uint64_t ssig = 0;
            if (np != std::string::npos) { nontrivial = raw[np + 3] == '1'; ssig = std::strtoull(raw.c_str() + np + 5, nullptr, 16); }
            if (nontrivial) { ++nt; distinct.insert(ssig); }
            size_t op = raw.find("\nO");
            if (op != std::string::npos) { std::istringstream is(raw.substr(op + 2, raw.find('\n', op + 1) - op - 2)); int v; while (is >> v) overlap.insert(v); }
            if (per_run) { unsigned long long sig = 0; if (!raw.compare(0, 2, "T ")) { const char *q = raw.c_str() + 2; for (int k = 0; k < 11; k++) { while (*q && *q != ' ') ++q; while (*q == ' ') ++q; } sig = std::strtoull(q, nullptr, 10); }
                std::printf("R i=%llu sig=%016llx nt=%d\n", (unsigned long long)i, sig, nontrivial ? 1 : 0); }
            if (o.cls == "unsupported") { ++unsupported; std::printf("U i=%llu %s\n", (unsigned long long)i, one_line(o.msg).substr(0, 200).c_str()); }
            if (o.violated) { ++viols; std::printf("V i=%llu runseed=%llu class=%s step=0 site=%s msg=%s\n", (unsigned long long)i, (unsigned long long)rs, o.cls.c_str(), o.site.c_str(), o.msg.c_str()); }
            if (max_s > 0 && (n & 15) == 15) { struct timespec t1; clock_gettime(CLOCK_MONOTONIC, &t1); if ((t1.tv_sec - t0.tv_sec) + (t1.tv_nsec - t0.tv_nsec) * 1e-9 > max_s) break; }
        }
        int nk = bop_count() + 1;
        std::printf("S {\"runs\": %llu, \"violations\": %llu, \"ops\": %llu, \"events\": %llu, \"steps\": %llu, \"accesses_checked\": %llu, \"nontrivial_runs\": %llu, \"distinct_nontrivial\": %zu, "
                    "\"faults\": {\"preemptions_injected\": %llu, \"context_switches\": %llu, \"allocation_faults_planned\": %llu, \"allocation_faults_fired\": %llu}, \"sync_operations_modelled\": %llu, \"unsupported_primitive_runs\": %llu, "
                    "\"strategies\": {\"serial\": %llu, \"rare_preemption\": %llu, \"medium_preemption\": %llu, \"frequent_preemption\": %llu, \"window_targeted\": %llu}, "
                    "\"libc_process_state\": {\"runs_under_non_C_locale\": %llu, \"modelled_reads\": %llu, \"modelled_writes\": %llu}, "
                    "\"environment\": {\"runs_also_compared_with_programs_alone_in_own_process\": %llu, \"reference_processes\": %llu, \"runs_under_shared_lifo_block_placement\": %llu}, \"overlap_pairs\": [",
                    (unsigned long long)tot.runs, (unsigned long long)viols, (unsigned long long)tot.ops, (unsigned long long)tot.events, (unsigned long long)tot.events, (unsigned long long)tot.accesses,
                    (unsigned long long)nt, distinct.size(), (unsigned long long)tot.preemptions, (unsigned long long)tot.switches, (unsigned long long)tot.alloc_faults_planned, (unsigned long long)tot.alloc_faults_fired, (unsigned long long)tot.sync_ops, (unsigned long long)unsupported,
                    (unsigned long long)tot.strategy[0], (unsigned long long)tot.strategy[1], (unsigned long long)tot.strategy[2], (unsigned long long)tot.strategy[3], (unsigned long long)tot.strategy[4],
                    (unsigned long long)tot.locale_runs, (unsigned long long)tot.libc_reads, (unsigned long long)tot.libc_writes,
                    (unsigned long long)tot.fresh_reference_runs, (unsigned long long)tot.reference_processes, (unsigned long long)tot.shared_lifo_runs);
        bool first = true; for (int v : overlap) { std::printf("%s%d", first ? "" : ",", v); first = false; }
        std::printf("], \"overlap_dim\": %d, \"op_kinds\": %d}\n", (int)OV_DIM, nk);
        const char *sigfile = arg(argc, argv, "--sigs", nullptr);
        if (sigfile) { std::ofstream f(sigfile, std::ios::binary); for (uint64_t h : distinct) f.write((const char *)&h, 8); }
        return unsupported ? 4 : 0;
    }
    if (cmd == "kinds") {
        // per-kind determinism probe: two threads executing the same kind under frequent preemption, three executions each, signatures must agree
        int bad = 0;
        for (int k = 0; k < bop_count(); k++) {
            unsigned long long sigs[3] = {0, 0, 0}; bool viol = false; std::string cls;
            for (int rep = 0; rep < 3; rep++) {
                Plan p; p.seed = 7; p.pool_seed = 1 + (k % 6); p.sched_seed = 99 + k; p.mean_gap = 25; p.max_preemptions = 40; p.programs.resize(2);
                for (int t = 0; t < 2; t++) for (int j = 0; j < 2; j++) { BOp o; o.kind = (uint16_t)k; o.a = 3 + 7 * t + j; o.b = 5 + t; o.c = 1000 * k + 77 * t + j; p.programs[t].push_back(o); }
                std::string raw; Outcome o = run_forked(p, &raw, nullptr);
                if (o.violated) { viol = true; cls = o.cls + " " + o.site + " " + o.msg; }
                if (!raw.compare(0, 2, "T ")) { const char *q = raw.c_str() + 2; for (int f = 0; f < 11; f++) { while (*q && *q != ' ') ++q; while (*q == ' ') ++q; } sigs[rep] = std::strtoull(q, nullptr, 10); }
            }
            bool det = sigs[0] == sigs[1] && sigs[1] == sigs[2];
            if (!det || viol) { ++bad; std::printf("KIND %d %s deterministic=%d %s\n", k, bop_name(k), det ? 1 : 0, viol ? cls.c_str() : ""); }
        }
        std::printf("kinds probed: %d, not deterministic or violating: %d\n", bop_count(), bad);
        return bad ? 2 : 0;
    }
    if (cmd == "dump") { uint64_t i = std::strtoull(arg(argc, argv, "--index", "0"), nullptr, 10); std::fputs(plan_to_text(gen_plan(run_seed(base, i))).c_str(), stdout); return 0; }
    if (cmd == "shrink") {
        uint64_t i = std::strtoull(arg(argc, argv, "--index", "0"), nullptr, 10); const char *out = arg(argc, argv, "--out", "replay.json");
        Plan p = gen_plan(run_seed(base, i)); g_index = i;
        Outcome a = run_forked(p), b = run_forked(p);
        if (!a.violated || !b.violated || a.cls != b.cls) { std::printf("NOREPRO first=%s second=%s\n", a.violated ? a.cls.c_str() : "ok", b.violated ? b.cls.c_str() : "ok"); return 2; }
        unsigned tries = 0; Plan m = shrink(p, a, tries);
        Outcome fin = run_forked(m); if (!fin.violated || fin.cls != a.cls) { m = p; fin = a; }
        if (!write_replay(out, m, fin, base, i, tries, p)) { std::printf("cannot write %s\n", out); return 2; }
        size_t ops0 = 0, ops1 = 0; for (auto &pr : p.programs) ops0 += pr.size(); for (auto &pr : m.programs) ops1 += pr.size();
        std::printf("SHRUNK class=%s site=%s ops=%zu->%zu threads=%zu->%zu switches=%zu executions=%u file=%s\n", fin.cls.c_str(), fin.site.c_str(), ops0, ops1, p.programs.size(), m.programs.size(), m.switches.size(), tries, out);
        return 0;
    }
    if (cmd == "replay") {
        Plan p; std::string cls, err;
        if (argc < 3 || !read_replay(argv[2], p, cls, err)) { std::fprintf(stderr, "%s\n", err.c_str()); return 2; }
        if (flag(argc, argv, "--show")) std::fputs(plan_to_text(p).c_str(), stdout);
        std::string raw; Outcome o = run_forked(p, &raw);
        if (flag(argc, argv, "--sig") && !raw.compare(0, 2, "T ")) { const char *q = raw.c_str() + 2; for (int f = 0; f < 11; f++) { while (*q && *q != ' ') ++q; while (*q == ' ') ++q; } std::printf("SIG %016llx\n", std::strtoull(q, nullptr, 10)); }
        if (o.violated) { std::printf("V i=0 runseed=%llu class=%s step=0 site=%s msg=%s\n", (unsigned long long)p.seed, o.cls.c_str(), o.site.c_str(), o.msg.c_str()); return 1; }
        std::printf("OK no violation (expected class %s)\n", cls.c_str()); return 0;
    }
    std::fprintf(stderr, "unknown command\n"); return 2;
}
