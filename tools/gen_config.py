#!/usr/bin/env python3
"""Generate st_config.h from /repo/include/st_config.h.in without cmake.

Each cmake/check_*.cpp is compiled (syntax only) with the same compiler and
standard the pinned build uses (c++ -std=c++20); the #cmakedefine lines are
substituted accordingly and the version is taken from CMakeLists.txt.
Usage: gen_config.py <repo> <out_file>
"""
import os, re, subprocess, sys

CHECKS = {
    "ST_HAVE_CXX20_CHAR8_TYPES": "check_char8_types.cpp",
    "ST_HAVE_INT64": "check_int64.cpp",
    "ST_HAVE_DEPRECATED_ATTR": "check_deprecated_attr.cpp",
    "ST_HAVE_NODISCARD_ATTR": "check_nodiscard.cpp",
    "ST_HAVE_CXX17_STRING_VIEW": "check_string_view.cpp",
    "ST_HAVE_CXX17_FILESYSTEM": "check_filesystem.cpp",
    "ST_HAVE_CXX20_U8_FSPATH": "check_fs_path_u8_ctor.cpp",
}

def main():
    repo, out = sys.argv[1], sys.argv[2]
    cxx = os.environ.get("CXX", "g++")
    defs = {"ST_ENABLE_STL_STRINGS": True, "ST_ENABLE_STL_FILESYSTEM": True}
    for name, src in CHECKS.items():
        path = os.path.join(repo, "cmake", src)
        ok = False
        if os.path.exists(path):
            r = subprocess.run([cxx, "-std=c++20", "-fsyntax-only", "-w", path],
                               stdout=subprocess.DEVNULL, stderr=subprocess.DEVNULL)
            ok = (r.returncode == 0)
        defs[name] = ok
    cm = open(os.path.join(repo, "CMakeLists.txt")).read()
    major = re.search(r"set\(ST_MAJOR_VERSION\s+(\d+)\)", cm).group(1)
    minor = re.search(r"set\(ST_MINOR_VERSION\s+(\d+)\)", cm).group(1)
    text = open(os.path.join(repo, "include", "st_config.h.in")).read()
    text = text.replace("@ST_MAJOR_VERSION@", major).replace("@ST_MINOR_VERSION@", minor)
    text = text.replace("@ST_VERSION@", "%s.%s" % (major, minor))
    def sub(m):
        n = m.group(1)
        return ("#define %s" % n) if defs.get(n) else ("/* #undef %s */" % n)
    text = re.sub(r"#cmakedefine\s+(\w+)", sub, text)
    tmp = out + ".tmp.%d" % os.getpid()
    with open(tmp, "w") as f:
        f.write(text)
    os.replace(tmp, out)

if __name__ == "__main__":
    main()
