#!/usr/bin/env python3
"""Reach measurement: which lines and functions of /repo/include does each check's workload execute?

  coverage.py [--runs N] [PROP ...]     (default: all decided properties, 3000 runs each)

Builds the gcov-instrumented `cov` / `schedcov` variants of the simulators (tools/build.py), runs each property's
generator for N indices in parallel workers, collects gcov's JSON per translation unit and merges it per header line.
The *universe* of executable lines is the union over all simulators plus the repository's own test suite compiled with
--coverage (a header-only library has no object code of its own: a template or inline function that nobody instantiates
produces no line records at all, so without the test suite as a second witness an API that no workload calls would simply be
invisible).  Prints, per property and for the union of all properties, line coverage per header and the functions the
universe knows but the workloads never entered.  Writes coverage/summary.json and coverage/uncovered.txt (git-ignored).

This is a measuring instrument, not a check: nothing here is registered in MANIFEST.json.
"""
import gzip, json, os, re, shutil, subprocess, sys, glob, tempfile
from concurrent.futures import ThreadPoolExecutor

VERIF = os.path.dirname(os.path.dirname(os.path.abspath(__file__)))
REPO = os.environ.get("VERIF_REPO", "/repo")
ENG = {"C04": "simA", "C05": "simA", "C16": "simA", "C18": "simA", "C19": "simA", "C17": "simC", "C20": "simB"}
VAR = {"simA": "cov", "simC": "cov", "simB": "schedcov"}

def sh(cmd, **kw):
    return subprocess.run(cmd, stdout=subprocess.PIPE, stderr=subprocess.STDOUT, text=True, **kw)

def gcov_dir(objdir):
    """run gcov --json on every .gcda of objdir; return {header: {line: count}}, {header: {func: count}}"""
    lines, funcs = {}, {}
    tmp = tempfile.mkdtemp(prefix="gcovj.")
    try:
        gcdas = sorted(glob.glob(os.path.join(objdir, "*.gcda")))
        if not gcdas:
            return lines, funcs
        sh(["gcov", "--json-format", "-o", objdir] + gcdas, cwd=tmp)
        for jf in glob.glob(os.path.join(tmp, "*.gcov.json.gz")):
            data = json.load(gzip.open(jf))
            for f in data.get("files", []):
                name = f["file"]
                if "/include/st_" not in name and not name.startswith("st_"):
                    continue
                base = os.path.basename(name)
                L = lines.setdefault(base, {}); F = funcs.setdefault(base, {})
                for ln in f.get("lines", []):
                    n = ln["line_number"]; L[n] = L.get(n, 0) + ln["count"]
                for fn in f.get("functions", []):
                    key = (fn.get("demangled_name") or fn["name"], fn["start_line"])
                    F[key] = F.get(key, 0) + fn["execution_count"]
    finally:
        shutil.rmtree(tmp, ignore_errors=True)
    return lines, funcs

def clear_gcda(objdir):
    for f in glob.glob(os.path.join(objdir, "*.gcda")):
        os.unlink(f)

def run_prop(prop, runs):
    eng = ENG[prop]
    r = sh([sys.executable, os.path.join(VERIF, "tools", "build.py"), eng, VAR[eng]])
    if r.returncode != 0:
        sys.stderr.write(r.stdout); raise SystemExit(2)
    objdir = r.stdout.strip().splitlines()[-1]
    clear_gcda(objdir)
    binpath = os.path.join(objdir, eng)
    W = 16
    def worker(w):
        cmd = [binpath, "batch", "--prop", prop, "--seed", "1", "--start", str(w), "--stride", str(W), "--count", str(max(1, runs // W)), "--max-report", "3"]
        return sh(cmd).returncode
    with ThreadPoolExecutor(W) as ex:
        rcs = list(ex.map(worker, range(W)))
    if prop == "C19":
        sh([binpath, "enum19", "--part", "0", "--parts", "1", "--max-report", "3"])
    res = gcov_dir(objdir)
    clear_gcda(objdir)
    return res, rcs

def suite_universe():
    """the repository's own tests compiled with --coverage: second witness for 'this line is executable / this function exists'"""
    out = tempfile.mkdtemp(prefix="covsuite.")
    try:
        sh([sys.executable, os.path.join(VERIF, "tools", "gen_config.py"), REPO, os.path.join(out, "st_config.h")])
        gt = "/usr/src/googletest/googletest"
        names = ["buffer", "string", "codecs", "iostream", "sstream", "format", "stdio", "regress"]
        def comp(t):
            return sh(["g++", "-std=c++20", "-O0", "--coverage", "-w", "-I", out, "-I", os.path.join(REPO, "include"), "-I", gt + "/include",
                       "-c", os.path.join(REPO, "test", "test_%s.cpp" % t), "-o", os.path.join(out, t + ".o")])
        with ThreadPoolExecutor(8) as ex:
            rs = list(ex.map(comp, names))
        for r in rs:
            if r.returncode != 0:
                sys.stderr.write(r.stdout[-2000:]); return {}, {}
        r = sh(["g++", "--coverage"] + [os.path.join(out, t + ".o") for t in names] +
               [os.path.join(REPO, "_build/lib/libgtest.a"), os.path.join(REPO, "_build/lib/libgtest_main.a"), "-lpthread", "-o", os.path.join(out, "st_gtests")])
        if r.returncode != 0:
            sys.stderr.write(r.stdout[-2000:]); return {}, {}
        sh([os.path.join(out, "st_gtests"), "--gtest_brief=1"], cwd=out)
        return gcov_dir(out)
    finally:
        shutil.rmtree(out, ignore_errors=True)

def clang_universe():
    """clang's source-based coverage records every non-template inline function of the headers, instantiated or not: third witness"""
    out = tempfile.mkdtemp(prefix="covclang.")
    try:
        sh([sys.executable, os.path.join(VERIF, "tools", "gen_config.py"), REPO, os.path.join(out, "st_config.h")])
        incs = sorted(os.listdir(os.path.join(REPO, "include", "string_theory")))
        open(os.path.join(out, "u.cpp"), "w").write("".join("#include <string_theory/%s>\n" % i for i in incs) + "int main(){return 0;}\n")
        r = sh(["clang++", "-std=c++20", "-w", "-I", out, "-I", os.path.join(REPO, "include"), "-fprofile-instr-generate", "-fcoverage-mapping", "u.cpp", "-o", "u"], cwd=out)
        if r.returncode != 0:
            return {}
        sh(["./u"], cwd=out)
        sh(["llvm-profdata-14", "merge", "default.profraw", "-o", "u.profdata"], cwd=out)
        r = subprocess.run(["llvm-cov-14", "export", "./u", "-instr-profile=u.profdata", "-format=text"], cwd=out, stdout=subprocess.PIPE, text=True)
        res = {}
        for f in json.loads(r.stdout)["data"][0]["functions"]:
            h = os.path.basename(f["filenames"][0])
            if h.startswith("st_"):
                name = sh(["c++filt", f["name"]]).stdout.strip()
                res.setdefault(h, {})[f["regions"][0][0]] = (name, f["regions"][0][2])
        return res
    finally:
        shutil.rmtree(out, ignore_errors=True)

def norm_func(name):
    # collapse template arguments of the outermost function so that instantiations with different harness types compare equal
    return re.sub(r"\s+", " ", name)

def main():
    args = sys.argv[1:]
    runs = 3000
    if "--runs" in args:
        i = args.index("--runs"); runs = int(args[i + 1]); del args[i:i + 2]
    props = [a.upper() for a in args] or sorted(ENG)
    per = {}
    for p in props:
        (L, F), rcs = run_prop(p, runs)
        per[p] = (L, F)
        print("ran %s: worker exit codes %s" % (p, sorted(set(rcs))), flush=True)
    UL, UF = suite_universe()
    headers = sorted(set(UL) | set(h for p in per for h in per[p][0]))
    universe = {h: set(UL.get(h, {})) | set().union(*[set(per[p][0].get(h, {})) for p in per]) for h in headers}
    summary = {"runs_per_property": runs, "headers": {}, "per_property": {}}
    outdir = os.path.join(VERIF, "coverage"); os.makedirs(outdir, exist_ok=True)
    unc = open(os.path.join(outdir, "uncovered.txt"), "w")
    print("\n%-24s %6s %7s " % ("header", "lines", "suite") + " ".join("%6s" % p for p in props) + "  union")
    union_cov = {}
    for h in headers:
        U = universe[h]
        row = []
        uni = set()
        for p in props:
            c = {n for n, k in per[p][0].get(h, {}).items() if k > 0}
            uni |= c; row.append(len(c))
        union_cov[h] = uni
        sc = len({n for n, k in UL.get(h, {}).items() if k > 0})
        print("%-24s %6d %6.1f%% " % (h, len(U), 100.0 * sc / max(1, len(U))) + " ".join("%5.1f%%" % (100.0 * r / max(1, len(U))) for r in row) + "  %5.1f%%" % (100.0 * len(uni) / max(1, len(U))))
        summary["headers"][h] = {"executable_lines": len(U), "suite_pct": round(100.0 * sc / max(1, len(U)), 1), "union_pct": round(100.0 * len(uni) / max(1, len(U)), 1),
                                 "per_property_pct": {p: round(100.0 * r / max(1, len(U)), 1) for p, r in zip(props, row)}}
        missing = sorted(U - uni)
        if missing:
            src = open(os.path.join(REPO, "include", h)).read().splitlines()
            unc.write("==== %s: %d of %d executable lines never executed by any workload\n" % (h, len(missing), len(U)))
            for n in missing:
                unc.write("%5d%s %s\n" % (n, " " if UL.get(h, {}).get(n, 0) > 0 else "!", src[n - 1] if n - 1 < len(src) else ""))
    # functions: known to the universe (suite or any engine) by (header, start_line); entered by some workload?
    unc.write("\n==== functions (by header:start line) that exist somewhere but no workload entered\n")
    nfun = nent = 0
    CU = clang_universe()
    for h in headers:
        starts = {}
        gstarts = {sl for (name, sl) in UF.get(h, {})} | {sl for p in per for (name, sl) in per[p][1].get(h, {})}
        for sl, (name, el) in CU.get(h, {}).items():
            # clang reports the line of the opening brace, gcov the line of the declarator: a function gcov already lists is not added twice
            if any(g in gstarts for g in range(sl - 4, sl + 1)):
                continue
            hit = any(n in union_cov.get(h, ()) for n in range(sl, el + 1))
            starts.setdefault(sl, [1 if hit else 0, name + "   [never instantiated in any simulator or test TU]"])
        for (name, sl), c in UF.get(h, {}).items():
            starts.setdefault(sl, [0, name])
        for p in per:
            for (name, sl), c in per[p][1].get(h, {}).items():
                e = starts.setdefault(sl, [0, name]); e[0] += c
        for sl, (c, name) in sorted(starts.items()):
            nfun += 1
            if c > 0: nent += 1
            else: unc.write("%s:%d  %s\n" % (h, sl, norm_func(name)[:200]))
    unc.close()
    print("\nfunctions (distinct definition sites) entered by some workload: %d of %d" % (nent, nfun))
    summary["functions"] = {"definition_sites": nfun, "entered_by_some_workload": nent}
    json.dump(summary, open(os.path.join(outdir, "summary.json"), "w"), indent=1)
    print("details: coverage/uncovered.txt ('!' marks lines the test suite does not execute either)")

if __name__ == "__main__":
    main()
