#!/usr/bin/env python3
"""Supervisor of the string_theory simulators.

  check.py <property> [--tier quick|thorough]     run the check of one property (exit 0 held / 1 violation / 2 infrastructure)
  check.py replay <file>                          re-execute a replay file in a fresh process (exit 1 if it fails again)
  check.py selftest                               determinism proof over all engines (exit 0 / 2)

Everything random is derived from VERIF_SEED (default 1); wall-clock time only bounds a batch and is reported
as throughput, it never influences a run.
"""
import json, os, re, subprocess, sys, threading, time

VERIF = os.path.dirname(os.path.dirname(os.path.abspath(__file__)))
sys.path.insert(0, os.path.join(VERIF, "tools"))
NCPU = min(16, os.cpu_count() or 4)

# ----------------------------------------------------------------------------------------------- configuration
# runs are (variant -> number of runs) for quick; thorough is time-boxed per variant (seconds of wall clock over all workers)
PROPS = {
    "C04": dict(engine="simA", level="exploration", quick={"plain": 30000, "asan": 4000, "plainuc": 4000, "plainrel": 4000}, thorough={"plain": 200, "asan": 140, "plainuc": 60, "plainrel": 60},
                rule="one run = one seeded history (5-80 operations) over a pool of ST::string objects and the buffers, vectors and streams their "
                     "operations return; distinct = distinct history signatures (hash of the sequence of operation kind, overload, operand storage "
                     "classes and outcome); non-trivial = the history contains a result-equals-source or self-referential call AND later mutates "
                     "the source of a derived object or destroys a derived object before its source"),
    "C05": dict(engine="simA", level="exploration", quick={"plain": 40000, "asan": 6000, "plainuc": 4000, "plainrel": 4000}, thorough={"plain": 200, "asan": 140, "plainuc": 60, "plainrel": 60},
                rule="one run = one seeded history (5-80 operations) over pools of ST::buffer<char|wchar_t|char16_t|char32_t>; distinct = distinct "
                     "history signatures (operation kind, element type, operand storage classes, outcome); non-trivial = the history crosses the "
                     "in-object limit in some assignment/allocate or touches a moved-from object"),
    "C16": dict(engine="simA", level="exploration", quick={"plain": 24000, "asan": 3000, "plainuc": 4000, "plainrel": 4000}, thorough={"plain": 200, "asan": 140, "plainuc": 60, "plainrel": 60},
                rule="one run = one seeded history (5-80 operations) over a pool of ST::string_stream objects; distinct = distinct history "
                     "signatures (operation kind, form, storage mode, size bucket, outcome); non-trivial = some append made a stream grow "
                     "(in-object to heap or a later doubling) or a moved-from stream was used"),
    "C18": dict(engine="simA", level="exploration", quick={"plain": 30000, "asan": 4000, "plainuc": 4000, "plainrel": 4000}, thorough={"plain": 200, "asan": 140, "plainuc": 60, "plainrel": 60},
                rule="one run = one seeded history in which data-corruption faults are attached to operations that take text, encoded data or a "
                     "format string; distinct = distinct history signatures; non-trivial = at least one fault made the library throw while the "
                     "target or an rvalue argument was in heap storage"),
    "C19": dict(engine="simA", level="fault_enumeration", quick={"plain": 20000, "asan": 3000, "plainuc": 4000, "plainrel": 4000}, thorough={"plain": 200, "asan": 140, "plainuc": 60, "plainrel": 60},
                rule="(a) enumeration, run to completion: every cell (allocating operation kind x overload x element type x storage class of "
                     "every operand) is executed once to count the k allocations library code attempts inside the operation and then k more times "
                     "with allocation i = 1..k throwing; `exhaustive` refers to this finite space; (b) seeded histories with allocation faults "
                     "attached to operations at a seeded rate. evaluations = executions of (a) + runs of (b); distinct_nontrivial = distinct "
                     "(cell, failing allocation index) pairs whose fault actually fired plus distinct signatures of histories in which a fault fired"),
    "C17": dict(engine="simC", level="exploration", quick={"plain": 60000, "asan": 8000, "plainuc": 4000, "plainrel": 4000}, thorough={"plain": 200, "asan": 140, "plainuc": 60, "plainrel": 60},
                rule="one run = one generated format call (format string from a grammar of accepted specifiers + 0-4 typed arguments) executed against "
                     "4-9 sink configurations (FILE* over fopencookie with seeded buffering mode/size, narrow and wide ostreams over a streambuf with seeded "
                     "put-area capacity, ostream insertion, istream extraction with seeded refill size) and compared with ST::format on the same call; "
                     "fault-free and faulted sink configurations are separate runs. evaluations = runs (calls); distinct = distinct (format-shape signature, "
                     "argument type vector, sink kind, capacity class, faulted?) tuples; non-trivial = the output contains padding or a multi-unit "
                     "character AND at least one flush/overflow/refill happened inside the call"),
    "C20": dict(engine="simB", level="exploration", variants=["sched", "sched0"], quick={"sched": 5000, "sched0": 4000}, thorough={"sched": 200, "sched0": 200},
                rule="one run = 2-4 real caller threads, each executing a seeded program of 2-8 operations (const members on shared immutable strings and "
                     "buffers, arbitrary operations on thread-private objects) under a seeded scheduler that decides every interleaving at memory-access "
                     "granularity (serial / rare / medium / frequent preemption), in a fresh process so that first-use effects are concurrent; every instrumented "
                     "access goes through a happens-before race detector and every operation's result digest is compared with the same program run alone. "
                     "distinct = distinct (thread programs, recorded switch list) pairs; non-trivial = at least one preemption was injected inside an operation"),
}
DET_SAMPLE = {"quick": 240, "thorough": 3000}
FIRST_INDEX = {"asan": 10 ** 7, "sched0": 10 ** 7, "plainuc": 2 * 10 ** 7, "plainrel": 3 * 10 ** 7}       # disjoint index ranges: every variant explores other runs
ENGINE_PARTS = {
    "simB": (["all string_theory headers of /repo's working tree, compiled with g++ -fsanitize=thread instrumentation (ABI only)", "real OS threads (pthreads) with genuine per-thread stacks, TLS, errno and exception unwinding",
              "inline libstdc++ templates compiled into the instrumented TU (std::function, std::vector, std::basic_string)", "glibc / libstdc++.so internals (uninstrumented: a race located entirely inside them is not visible)"],
             ["scheduler: one baton, threads parked on semaphores, every instrumented access / wrapped libc call is a possible preemption point chosen by the seed",
              "own implementation of the __tsan_* entry points: vector-clock happens-before detector with 4-record shadow cells", "models of __cxa_guard_*, pthread_mutex_*, pthread_once and atomics (so synchronised code is not reported and cannot deadlock the baton)",
              "link-time wrappers reporting the byte ranges of memcpy/memmove/memset/memcmp/memchr/strlen/wmem*/snprintf/strto*", "per-thread step clock (trace-pc), heap ledger"]),
    "simA": (["all string_theory headers of /repo's working tree (compiled into the simulator)", "libstdc++ containers, std::function, exceptions and iostreams used on the library's behalf",
              "glibc malloc/free underneath the heap seam"],
             ["heap seam: operator new/delete replacement with ledger, fault plan, fill patterns, reuse policy (simrt/heap.cpp)",
              "simulated time: step clock from -fsanitize-coverage=trace-pc (simrt/clock_fatal.cpp)",
              "reference models (std::basic_string values, reference UTF encoders) and data-source table",
              "fatal-event classification: --wrap=abort/fprintf, terminate handler, signal handlers, sanitizer callbacks"]),
    "simC": (["all string_theory headers of /repo's working tree: ST::format, ST::format_latin_1, ST::printf, ST::writef, operator<< / operator>> for ST::string, the shared format driver and every format_type overload",
              "glibc stdio buffering on the cookie FILE* (fopencookie, setvbuf)", "libstdc++ basic_ostream / basic_istream on the simulated streambufs"],
             ["cookie sink recording what stdio hands to the 'device' and failing on request", "basic_streambuf<char|wchar_t|char16_t|char32_t> with seeded put-area capacity / refill size, failing on request",
              "AnyArg: a user type plugged into the public format_type extension point that forwards to the real typed formatter (one template instantiation per arity)",
              "reference UTF-8 -> UTF-16/32 and Latin-1 -> UTF-8 transcoders", "step clock watchdog, heap ledger"]),
}

# ----------------------------------------------------------------------------------------------- helpers
def log(msg):
    sys.stdout.write(msg + "\n")
    sys.stdout.flush()

def build(engine, variant):
    r = subprocess.run([sys.executable, os.path.join(VERIF, "tools", "build.py"), engine, variant], stdout=subprocess.PIPE, stderr=subprocess.PIPE, text=True)
    if r.returncode != 0:
        sys.stderr.write(r.stderr)
        raise SystemExit(2)
    return r.stdout.strip().splitlines()[-1]

def build_all(engine, variants):
    res, th = {}, []
    def one(v):
        res[v] = build(engine, v)
    for v in variants:
        t = threading.Thread(target=one, args=(v,)); t.start(); th.append(t)
    for t in th:
        t.join()
    if len(res) != len(variants):
        raise SystemExit(2)
    return res

def parse_kv(line):
    # "V i=3 class=x step=4 site=... msg=free text" -> dict (msg takes the rest of the line)
    d = {}
    m = re.search(r" msg=(.*)$", line)
    if m:
        d["msg"] = m.group(1); line = line[:m.start()]
    m = re.search(r" detail=(.*)$", line)
    if m:
        d["detail"] = m.group(1); line = line[:m.start()]
    m = re.search(r" site=(.*?)(?= class=|$)", line)
    if m:
        d["site"] = m.group(1).strip()
    for k, v in re.findall(r"(\w+)=(\S+)", line):
        d.setdefault(k, v)
    return d

class Batch:
    """Runs `count` indices (or for `seconds`) of one property on one variant over several workers."""
    def __init__(self, binpath, engine, prop, seed, workers):
        self.bin, self.engine, self.prop, self.seed, self.workers = binpath, engine, prop, seed, workers
        self.viol, self.summaries, self.per_run, self.restarts, self.sigs = [], [], {}, 0, set()
        self.unsupported = False
        self.broken = None
        self.sites = set()
        self.lock = threading.Lock()

    def _worker(self, w, start, stride, count, seconds, per_run, extra):
        sigfile = os.path.join(os.path.dirname(self.bin), "sigs.%d.%d.%d" % (os.getpid(), w, threading.get_ident()))
        remaining, cur = count, start
        deadline = time.time() + seconds + 30 if seconds else None
        while remaining > 0:
            cmd = [self.bin, "batch", "--prop", self.prop, "--seed", str(self.seed), "--start", str(cur), "--stride", str(stride),
                   "--count", str(remaining), "--sigs", sigfile, "--max-report", "40"] + extra
            if self.engine == "simA":
                cmd += ["--sites", sigfile + ".sites"]
            if seconds:
                left = max(1.0, seconds - (time.time() - self.t0))
                cmd += ["--max-seconds", "%.1f" % left]
            if per_run:
                cmd += ["--per-run"]
            try:
                p = subprocess.run(cmd, stdout=subprocess.PIPE, stderr=subprocess.PIPE, text=True, errors="replace")
            except OSError as e:
                with self.lock:
                    self.broken = "cannot run %s: %s" % (cmd[0], e)
                return
            done_to = None
            with self.lock:
                for line in p.stdout.splitlines():
                    if line.startswith("V "):
                        d = parse_kv(line); d["fatal"] = False; d["pstart"], d["pstride"] = cur, stride; self.viol.append(d)
                    elif line.startswith("FATAL "):
                        d = parse_kv(line); d["fatal"] = True; d.setdefault("msg", d.get("detail", "")); d["pstart"], d["pstride"] = cur, stride; self.viol.append(d)
                        done_to = int(d.get("i", cur))
                    elif line.startswith("S "):
                        self.summaries.append(json.loads(line[2:]))
                    elif line.startswith("R "):
                        d = parse_kv(line); self.per_run[int(d["i"])] = d["sig"]
                if os.path.exists(sigfile):
                    data = open(sigfile, "rb").read(); os.unlink(sigfile)
                    for k in range(0, len(data) - 7, 8):
                        self.sigs.add(data[k:k + 8])
                if os.path.exists(sigfile + ".sites"):
                    data = open(sigfile + ".sites", "rb").read(); os.unlink(sigfile + ".sites")
                    for k in range(0, len(data) - 7, 8):
                        self.sites.add(data[k:k + 8])
            if p.returncode == 0:
                break
            if p.returncode == 4:
                with self.lock:
                    self.unsupported = True      # instrumented code used a blocking primitive the scheduler does not model: no verdict
                break
            if p.returncode == 3:
                # the worker stopped itself after reporting a violation (its memory may be corrupted): continue after that run
                last = [v for v in self.viol if not v.get("fatal")]
                done_to = int(last[-1].get("i", cur)) if last else cur
                for line in reversed(p.stdout.splitlines()):
                    if line.startswith("V "):
                        done_to = int(parse_kv(line).get("i", cur)); break
                n_done = (done_to - cur) // stride + 1
                remaining -= n_done; cur = done_to + stride
                with self.lock:
                    self.restarts += 1
                    too_many = self.restarts > 400
                if too_many or (deadline and time.time() > deadline):
                    break
                continue
            # the worker died: attribute, then continue after the run it was in
            with self.lock:
                self.restarts += 1
                if done_to is None:
                    self.viol.append({"fatal": True, "class": "died", "site": "?", "i": str(cur), "msg": "worker exited with status %d: %s" % (p.returncode, p.stderr[-300:].replace("\n", " "))})
                    done_to = cur
            n_done = (done_to - cur) // stride + 1
            remaining -= n_done; cur = done_to + stride
            if deadline and time.time() > deadline:
                break
            if self.restarts > 200:
                break

    def run(self, count=None, seconds=None, per_run=False, first=0, extra=()):
        self.t0 = time.time()
        W = self.workers
        th = []
        for w in range(W):
            if count is not None:
                n = count // W + (1 if w < count % W else 0)
            else:
                n = 10 ** 9
            if n <= 0:
                continue
            t = threading.Thread(target=self._worker, args=(w, first + w, W, n, seconds, per_run, list(extra)))
            t.start(); th.append(t)
        for t in th:
            t.join()
        self.wall = time.time() - self.t0
        return self

    def total(self):
        tot = {}
        def add(dst, src):
            for k, v in src.items():
                if isinstance(v, dict):
                    add(dst.setdefault(k, {}), v)
                elif isinstance(v, (int, float)):
                    dst[k] = dst.get(k, 0) + v
        pairs = set()
        for s in self.summaries:
            add(tot, s)
            pairs.update(s.get("overlap_pairs", []))
        if any("overlap_pairs" in s for s in self.summaries):
            dim = self.summaries[0].get("overlap_dim", 96); nk = self.summaries[0].get("op_kinds", 1)
            tot["overlap_dim"] = dim; tot["op_kinds"] = nk
            tot["overlap_pairs_set"] = sorted(pairs)
        tot["distinct_nontrivial"] = len(self.sigs)
        if self.sites:
            tot["distinct_sites"] = len(self.sites)
        return tot

def load_known():
    known, fixed = [], []
    path = os.path.join(VERIF, "known_findings.txt")
    if os.path.exists(path):
        for line in open(path):
            line = line.strip()
            if line.startswith("finding:"):
                d = dict(re.findall(r"(\w+)=(\S+)", line)); d["text"] = line[len("finding:"):].strip(); known.append(d)
            elif line.startswith("fixed:"):
                fixed.append(line)
    return known, fixed

def site_kind(site):
    return re.split(r"[(<]", site or "?")[0]

def match_known(prop, v, known):
    for k in known:
        if k.get("property") == prop and k.get("class") == v.get("class") and (k.get("site") in (None, "*") or site_kind(v.get("site")) == k.get("site")):
            return k
    return None

def fresh_replay(binpath, path, expect_cls):
    p = subprocess.run([binpath, "replay", path], stdout=subprocess.PIPE, stderr=subprocess.PIPE, text=True, errors="replace")
    for line in p.stdout.splitlines():
        if line.startswith("V ") or line.startswith("FATAL "):
            d = parse_kv(line)
            return d.get("class") == expect_cls, d.get("class")
    return False, "no violation (exit %d)" % p.returncode

def confirm_and_report(prop, bins, seed, batches, known):
    """Gate, minimise and report violations.  Returns (n_new, n_known, infra_error)."""
    repdir = os.environ.get("VERIF_REPLAY_DIR") or os.path.join(VERIF, "replays")
    os.makedirs(repdir, exist_ok=True)
    groups, known_hits = {}, {}
    for variant, b in batches:
        for v in b.viol:
            k = match_known(prop, v, known)
            if k is not None:
                known_hits.setdefault(k["text"], 0); known_hits[k["text"]] += 1
                continue
            groups.setdefault((v.get("class"), site_kind(v.get("site"))), []).append((variant, v))
    for text, n in sorted(known_hits.items()):
        log("KNOWN-FINDING: property=%s %s (seen %d times in this run)" % (prop, re.sub(r"^property=\S+\s+", "", text), n))
    infra = False
    reported = 0
    for (cls, sk), items in sorted(groups.items(), key=lambda kv: (str(kv[0][0]), str(kv[0][1])))[:4]:
        variant, v = sorted(items, key=lambda it: (it[0] == "asan", int(it[1].get("i", 0) or 0)))[0]
        binpath = os.path.join(bins[variant], PROPS[prop]["engine"])
        out = os.path.join(repdir, "%s-%s-%s-%s.json" % (prop, variant, seed, v.get("i", "x")))
        env = dict(os.environ, SIM_VARIANT=variant)
        if "plan" in v:
            planfile = out + ".plan"
            open(planfile, "w").write(v["plan"])
            cmd = [binpath, "shrink", "--prop", prop, "--seed", str(seed), "--plan-file", planfile, "--out", out]
        else:
            cmd = [binpath, "shrink", "--prop", prop, "--seed", str(seed), "--index", str(v.get("i", 0)), "--out", out]
            if PROPS[prop]["engine"] in ("simA", "simC") and "pstart" in v:      # the histories the same worker process had executed before (used only if the plan alone does not reproduce)
                cmd += ["--chain-start", str(v["pstart"]), "--chain-stride", str(v["pstride"])]
        p = subprocess.run(cmd, stdout=subprocess.PIPE, stderr=subprocess.PIPE, text=True, env=env, errors="replace")
        if p.returncode != 0:
            log("INFRASTRUCTURE: violation class=%s site=%s at index %s (%s) did not reproduce when re-executed: %s" % (cls, v.get("site"), v.get("i"), variant, p.stdout.strip()[-300:]))
            infra = True
            continue
        m = re.search(r"SHRUNK class=(\S+)", p.stdout)
        got_cls = m.group(1) if m else cls
        ok, seen = fresh_replay(binpath, out, got_cls)
        if not ok:
            log("INFRASTRUCTURE: minimised replay %s does not reproduce class %s in a fresh process (saw %s)" % (out, got_cls, seen))
            infra = True
            continue
        log("  violation class=%s site=%s first_index=%s variant=%s occurrences=%d : %s" % (cls, v.get("site"), v.get("i"), variant, len(items), v.get("msg", "")[:300]))
        log("  %s" % p.stdout.strip().splitlines()[-1])
        log("VIOLATION property=%s replay=%s" % (prop, out))
        reported += 1
    return reported, len(known_hits), infra

def determinism(binpath, engine, prop, seed, n, extra=()):
    """Each of n indices is executed twice, in different worker processes at two worker counts; signatures must agree."""
    a = Batch(binpath, engine, prop, seed, 4).run(count=n, per_run=True, extra=extra)
    b = Batch(binpath, engine, prop, seed, NCPU).run(count=n, per_run=True, extra=extra)
    bad = [i for i in a.per_run if b.per_run.get(i) != a.per_run[i]]
    missing = n - len(a.per_run)
    return len(a.per_run), bad, missing

def dump_samples(binpath, prop, seed, idxs):
    out = []
    for i in idxs:
        p = subprocess.run([binpath, "dump", "--prop", prop, "--seed", str(seed), "--index", str(i)], stdout=subprocess.PIPE, text=True)
        lines = p.stdout.strip().splitlines()
        out.append({"index": i, "plan": lines[:1] + lines[1:26] + (["... (%d more operations)" % (len(lines) - 26)] if len(lines) > 26 else [])})
    return out

def write_evidence(prop, ev):
    evdir = os.environ.get("VERIF_EVIDENCE_DIR") or os.path.join(VERIF, "evidence")     # (override used only when judging seeded changes)
    os.makedirs(evdir, exist_ok=True)
    path = os.path.join(evdir, "%s.json" % prop)
    tmp = path + ".tmp"
    json.dump(ev, open(tmp, "w"), indent=1, sort_keys=False)
    os.replace(tmp, path)

_UNUSED = ["all string_theory headers of /repo's working tree (compiled into the simulator)", "libstdc++ containers, std::function, exceptions and iostreams used on the library's behalf",
        "glibc malloc/free underneath the heap seam"]
STUB = ["heap seam: operator new/delete replacement with ledger, fault plan, fill patterns, reuse policy (simrt/heap.cpp)",
        "simulated time: step clock from -fsanitize-coverage=trace-pc (simrt/clock_fatal.cpp)",
        "reference models (std::basic_string values, reference UTF encoders) and data-source table",
        "fatal-event classification: --wrap=abort/fprintf, terminate handler, signal handlers, sanitizer callbacks"]

# ----------------------------------------------------------------------------------------------- engine A check
def enum19(binpath, workers, known):
    """C19 enumeration over all cells, partitioned over workers; a part that dies is redone in robust (forked) mode."""
    res = {"viol": [], "summ": [], "E": []}
    lock = threading.Lock()
    def part(w):
        cmd = [binpath, "enum19", "--part", str(w), "--parts", str(workers), "--max-report", "30"]
        p = subprocess.run(cmd, stdout=subprocess.PIPE, stderr=subprocess.PIPE, text=True, errors="replace")
        if p.returncode != 0:
            p = subprocess.run(cmd + ["--fork"], stdout=subprocess.PIPE, stderr=subprocess.PIPE, text=True, errors="replace")
        with lock:
            last = None
            for line in p.stdout.splitlines():
                if line.startswith("V "):
                    last = parse_kv(line); last["fatal"] = False; res["viol"].append(last)
                elif line.startswith("P ") and last is not None:
                    last["plan"] = json.loads('"' + line[2:] + '"')
                elif line.startswith("S "):
                    res["summ"].append(json.loads(line[2:]))
                elif line.startswith("E "):
                    res["E"].append(json.loads(line[2:]))
            if p.returncode != 0:
                res["viol"].append({"fatal": True, "class": "died", "site": "enum19", "i": "0", "msg": "enumeration part %d died twice" % w})
    th = [threading.Thread(target=part, args=(w,)) for w in range(workers)]
    for t in th: t.start()
    for t in th: t.join()
    return res

def check_engine_a(prop, tier, seed):
    cfg = PROPS[prop]
    t_start = time.time()
    variants = cfg.get("variants", ["plain", "asan", "plainuc", "plainrel"])
    if os.environ.get("VERIF_VARIANTS") and "variants" not in cfg:       # measuring tools only (tools/mutation_campaign.py): e.g. plain without asan
        variants = [v for v in variants if v in os.environ["VERIF_VARIANTS"].split(",")] or variants
    bins = build_all(cfg["engine"], variants)
    known, fixed = load_known()
    batches = []
    for variant in variants:
        binpath = os.path.join(bins[variant], cfg["engine"])
        workers = NCPU if variant != "asan" else min(NCPU, 8)
        b = Batch(binpath, cfg["engine"], prop, seed, workers)
        if tier == "quick":
            b.run(count=cfg["quick"][variant], first=FIRST_INDEX.get(variant, 0))
        else:
            b.run(seconds=cfg["thorough"][variant], first=FIRST_INDEX.get(variant, 0))
        batches.append((variant, b))
    en = None
    if prop == "C19":
        en = enum19(os.path.join(bins["plain"], "simA"), NCPU, known)
        class EB: pass
        eb = EB(); eb.viol = en["viol"]
        batches.append(("plain", eb))
        if tier == "thorough":
            en_asan = enum19(os.path.join(bins["asan"], "simA"), min(NCPU, 8), known)
            eb2 = EB(); eb2.viol = en_asan["viol"]
            batches.append(("asan", eb2))
    # determinism proof on a sample (plain variant)
    det_n, det_bad, det_missing = determinism(os.path.join(bins[variants[0]], cfg["engine"]), cfg["engine"], prop, seed, DET_SAMPLE[tier])
    infra = False
    if det_bad:
        log("INFRASTRUCTURE: %d of %d runs produced different history signatures when executed twice (first: index %s)" % (len(det_bad), det_n, det_bad[0]))
        infra = True
    n_new, n_known, inf2 = confirm_and_report(prop, bins, seed, batches, known)
    infra = infra or inf2
    # ---- evidence
    tot = {}
    per_variant = {}
    for variant, b in batches:
        if not hasattr(b, "total"):
            continue
        t = b.total(); per_variant[variant] = {"runs": t.get("runs", 0), "wall_s": round(b.wall, 2), "workers": b.workers, "worker_restarts": b.restarts,
                                               "runs_per_hour": int(t.get("runs", 0) / max(b.wall, 1e-3) * 3600), "distinct_nontrivial": t.get("distinct_nontrivial", 0),
                                               "steps": t.get("steps", 0)}
        for k, v in t.items():
            if isinstance(v, dict):
                d = tot.setdefault(k, {})
                for kk, vv in v.items(): d[kk] = d.get(kk, 0) + vv
            elif isinstance(v, list):
                tot[k] = sorted(set(tot.get(k, [])) | set(v))
            elif k in ("overlap_dim", "op_kinds"):
                tot[k] = v
            else:
                tot[k] = tot.get(k, 0) + v
    for _, b in batches:
        if getattr(b, "broken", None):
            log("INFRASTRUCTURE: %s" % b.broken)
            infra = True
    unsupported = any(getattr(b, "unsupported", False) for _, b in batches)
    if unsupported:
        log("INFRASTRUCTURE: instrumented code called a blocking primitive the scheduler does not model (condition variable / rwlock): no verdict")
        infra = True
    evaluations = tot.get("runs", 0)
    distinct = sum(pv["distinct_nontrivial"] for pv in per_variant.values())
    # signatures are identical across variants for the same index; indices differ between variants, so the sum counts distinct histories
    cov = {
        "evaluations": evaluations, "distinct_nontrivial": distinct, "rule": cfg["rule"],
        "samples": dump_samples(os.path.join(bins[variants[0]], cfg["engine"]), prop, seed, [0, 1]),
        "seeds": {"verif_seed": seed, "plain_indices": "0..", "asan_and_sched0_indices": "10000000..", "plainuc_indices": "20000000..", "plainrel_indices": "30000000..", "run_seed": "mix(VERIF_SEED, property, index)"},
        "per_variant": per_variant,
        "operations_executed": tot.get("ops", tot.get("pairs", 0)), "invariant_evaluations": tot.get("checks", tot.get("pairs", 0)),
        "simulated_time_steps": tot.get("steps", 0),
        "faults_fired": tot.get("faults", {}), "library_allocations_observed": tot.get("sut_allocs", 0),
        "exceptions_seen": tot.get("exceptions", {}),
        "rare_condition_probes": {k: v for k, v in tot.get("probes", {}).items()},
        "distinct_sites_reached": {"count": len(set().union(*[getattr(b, "sites", set()) for _, b in batches])), "measure": "distinct (operation kind, overload/element type, storage class of every operand, input validity) tuples executed at least once"},
        "engine_counters": {k: v for k, v in tot.items() if k in ("pairs", "calls", "rejected_by_format", "per_sink", "nontrivial_runs", "events", "accesses_checked", "strategies", "sync_operations_modelled", "unsupported_primitive_runs", "libc_process_state", "environment")},
        "determinism": {"indices_run_twice": det_n, "worker_counts": [4, NCPU], "mismatches": len(det_bad)},
        "components_real": ENGINE_PARTS[cfg["engine"]][0], "components_simulated": ENGINE_PARTS[cfg["engine"]][1],
        "known_findings_seen": n_known, "fixed_entries_in_known_findings_file": len(fixed),
    }
    for k in ("invariant_evaluations", "library_allocations_observed", "exceptions_seen", "rare_condition_probes"):
        if not cov.get(k): cov.pop(k, None)
    if not cov["distinct_sites_reached"]["count"]: cov.pop("distinct_sites_reached")
    if "overlap_pairs_set" in tot:
        dim, nk = tot["overlap_dim"], tot["op_kinds"]
        covered = {(x // dim, x % dim) for x in tot["overlap_pairs_set"] if x // dim < nk and x % dim < nk}
        uncovered = [(a, b) for a in range(nk) for b in range(nk) if (a, b) not in covered]
        cov["operation_kind_pairs_overlapped"] = {"covered": len(covered), "of": nk * nk, "meaning": "ordered pairs (X,Y): some thread was preempted inside an operation of kind X while another thread executed kind Y",
                                                  "uncovered_first_20": uncovered[:20]}
    if en is not None:
        cells = sum(e["cells"] for e in en["E"]); points = sum(e["alloc_points"] for e in en["E"]); execs = sum(e["executions"] for e in en["E"])
        en_distinct = sum(s.get("distinct_nontrivial", 0) for s in en["summ"])
        cov["enumeration"] = {"cells": cells, "allocation_points": points, "executions": execs, "max_allocations_in_one_operation": max([e["max_k"] for e in en["E"]] or [0]),
                              "faults_fired": sum(s.get("faults", {}).get("alloc_fired", 0) for s in en["summ"]), "completed": all(True for _ in en["E"]) and len(en["E"]) == NCPU}
        cov["evaluations"] += execs; cov["distinct_nontrivial"] += en_distinct
        cov["exhaustive"] = cov["enumeration"]["completed"]
        for s in en["summ"]:
            for kk, vv in s.get("probes", {}).items():
                cov["rare_condition_probes"][kk] = cov["rare_condition_probes"].get(kk, 0) + vv
    wall = time.time() - t_start
    cov["runs_per_hour"] = int(cov["evaluations"] / max(wall, 1e-3) * 3600)
    ev = {"property_id": prop, "tier": tier, "seed": seed, "level": cfg["level"], "coverage": cov,
          "assumptions": ["the generators stay inside documented preconditions (DESIGN.md 2.4, 3.3)", "glibc and libstdc++ are trusted",
                          "a clean batch is evidence over the explored histories and fault sequences, not a proof"],
          "wall_s": round(wall, 2), "violations": n_new}
    write_evidence(prop, ev)
    log("%s %s: %d evaluations, %d distinct non-trivial, %d new violation group(s), %d known finding(s), %.1f s" % (prop, tier, cov["evaluations"], cov["distinct_nontrivial"], n_new, n_known, wall))
    if n_new:
        return 1          # at least one violation passed both gates (infrastructure notes above concern other, non-reproducible events)
    return 2 if infra else 0

# ----------------------------------------------------------------------------------------------- main
def main():
    if len(sys.argv) < 2:
        print(__doc__); return 2
    seed = int(os.environ.get("VERIF_SEED", "1") or "1")
    if sys.argv[1] == "replay":
        path = sys.argv[2]
        data = json.load(open(path))
        engine, variant = data.get("engine", "simA"), data.get("variant", "plain")
        binpath = os.path.join(build(engine, variant), engine)
        p = subprocess.run([binpath, "replay", path, "--show"])
        return 1 if p.returncode in (1, 70, 77) else (0 if p.returncode == 0 else 2)
    if sys.argv[1] == "selftest":
        # determinism proof: for every engine / property, N indices are each executed twice, in different worker processes at two
        # worker counts (4 and 16); the per-run history signatures must agree.  Exit 2 on any mismatch.
        n = int(sys.argv[2]) if len(sys.argv) > 2 else 2000
        bad_total = 0
        for prop in sorted(PROPS):
            cfg = PROPS[prop]; variant = cfg.get("variants", ["plain"])[0]
            binpath = os.path.join(build(cfg["engine"], variant), cfg["engine"])
            det_n, det_bad, missing = determinism(binpath, cfg["engine"], prop, seed, n)
            log("selftest %s (%s/%s): %d indices run twice at 4 and %d workers, %d mismatches" % (prop, cfg["engine"], variant, det_n, NCPU, len(det_bad)))
            bad_total += len(det_bad) + (1 if det_n < n else 0)
        return 2 if bad_total else 0
    prop = sys.argv[1].upper()
    tier = os.environ.get("VERIF_TIER", "quick")
    if "--tier" in sys.argv:
        tier = sys.argv[sys.argv.index("--tier") + 1]
    if prop not in PROPS:
        log("unknown property %s" % prop); return 2
    return check_engine_a(prop, tier, seed)

if __name__ == "__main__":
    sys.exit(main())
