#!/usr/bin/env python3
"""Systematic first-order mutation of the headers the decided properties are anchored in, judged by the checks.

  mutation_campaign.py [--files a.h,b.h] [--limit N] [--seed S] [--out DIR] [--props C05,C16,...]

A measuring instrument (like tools/coverage.py), not a check: nothing here is registered in MANIFEST.json.

For every generated mutant (one small textual change to one header line: relational operator, off-by-one constant, dropped
statement, two adjacent statements swapped, `&&`/`||` flipped, branch condition negated) the campaign

  1. applies it in a scratch git worktree of /repo (outside /repo and /verif; removed at the end),
  2. compiles the repository's own test suite against it and runs it: a mutant the suite already kills, or that does not compile,
     is of no interest (the question is what the *checks* add),
  3. runs the quick tier (plain variant only, VERIF_VARIANTS=plain) of the checks anchored in that header on the scratch tree
     (VERIF_REPO), with evidence and replays redirected to a scratch directory,
  4. records: killed_by_suite / not_compiling / caught_by=<checks> / survived.

Survivors are either equivalent mutants (the change cannot alter behaviour) or gaps; they are listed with their diff for triage.
Results: <out>/results.jsonl and <out>/summary.txt.
"""
import json, os, random, re, shutil, subprocess, sys, tempfile, time

VERIF = os.path.dirname(os.path.dirname(os.path.abspath(__file__)))
REPO = "/repo"
ANCHORED = {   # header -> checks whose properties are anchored in it (C20 is judged separately: it only ever reports shared state)
    "st_charbuffer.h": ["C05", "C04", "C19"],
    "st_stringstream.h": ["C16", "C19", "C18"],
    "st_iostream.h": ["C17"],
    "st_stdio.h": ["C17"],
    "st_format.h": ["C17", "C04"],
    "st_string.h": ["C04", "C18", "C19"],
    "st_formatter.h": ["C17", "C18"],
    "st_utf_conv.h": ["C18", "C19", "C04"],
    "st_codecs.h": ["C18", "C19"],
}
RANGES = {   # only the regions the decided properties are anchored in (the rest of these files belongs to not-applicable properties)
    "st_string.h": [(96, 140), (310, 540), (2740, 2810)],      # _set_utf8, set/operator= family, operator+=
    "st_formatter.h": [(97, 134), (300, 336)],                 # format_writer, the shared driver all sinks plug into
    "st_utf_conv.h": [(53, 669)],                              # public wrappers: measure, allocate, convert, raise
    "st_codecs.h": [(30, 115)],
}

def sh(cmd, **kw):
    return subprocess.run(cmd, stdout=subprocess.PIPE, stderr=subprocess.STDOUT, text=True, errors="replace", **kw)

def candidates(fname, lines):
    """yield (lineno, description, new_lines_for_that_position) - purely textual, one site at a time"""
    out = []
    def in_range(i):
        if fname not in RANGES: return True
        return any(a <= i + 1 <= b for a, b in RANGES[fname])
    code = lambda l: l.strip() and not l.strip().startswith(("//", "*", "/*", "#")) and "ST_ASSERT" not in l and "static_assert" not in l
    for i, l in enumerate(lines):
        if not in_range(i) or not code(l): continue
        s = l
        # relational operators inside conditions
        if re.search(r"\b(if|while|for)\b|\?|return", s):
            for a, b in ((" < ", " <= "), (" <= ", " < "), (" > ", " >= "), (" >= ", " > "), (" == ", " != "), (" != ", " == "), (" && ", " || "), (" || ", " && ")):
                for m in re.finditer(re.escape(a), s):
                    out.append((i, "%s -> %s" % (a.strip(), b.strip()), [s[:m.start()] + b + s[m.end():]]))
            m = re.search(r"\bif \((?!!)(.*)\)\s*$", s)
            if m and "(" not in m.group(1)[:0]:
                out.append((i, "negate condition", [s[:m.start(1)] + "!(" + m.group(1) + ")" + s[m.end(1):]]))
        # off-by-one constants
        for a, b in ((" + 1", ""), (" - 1", ""), (" + 1", " + 2"), ("[0]", "[1]")):
            for m in re.finditer(re.escape(a), s):
                if "++" in s[m.start():m.start() + 3]: continue
                out.append((i, "'%s' -> '%s'" % (a.strip(), b.strip()), [s[:m.start()] + b + s[m.end():]]))
        st = s.strip()
        is_stmt = st.endswith(";") and not st.startswith(("return", "typedef", "using", "friend", "template", "static", "const ", "char", "size_t", "auto", "ST_", "explicit", "inline", "virtual", "break", "continue", "throw", "else")) \
                  and not re.match(r"^[A-Za-z_:<>\*& ]+ [A-Za-z_][A-Za-z_0-9]*( = [^;]*)?;$", st) and "(" in st or (st.endswith(";") and re.match(r"^[a-z_\.\->\[\]A-Z0-9]+ [\+\-\*]?= ", st))
        if is_stmt:
            out.append((i, "drop statement", [re.match(r"^\s*", s).group(0) + ";"]))
            # swap with the next statement line if it is one too
            if i + 1 < len(lines):
                n = lines[i + 1].strip()
                if n.endswith(";") and code(lines[i + 1]) and not n.startswith(("return", "break", "else", "}", "case", "default")) and n != st:
                    out.append((i, "swap with next statement", [lines[i + 1], s]))
    return out

def apply(lines, cand):
    i, desc, new = cand
    res = lines[:]
    if len(new) == 2: res[i], res[i + 1] = new[0], new[1]
    else: res[i] = new[0]
    return res

def suite(tree, tmp):
    """compile + run the repository's tests against `tree`; returns 'pass' | 'fail' | 'nocompile'"""
    cfg = os.path.join(tmp, "cfg"); os.makedirs(cfg, exist_ok=True)
    sh([sys.executable, os.path.join(VERIF, "tools", "gen_config.py"), tree, os.path.join(cfg, "st_config.h")])
    gt = "/usr/src/googletest/googletest"
    names = ["buffer", "string", "codecs", "iostream", "sstream", "format", "stdio", "regress"]
    procs = []
    for t in names:
        procs.append(subprocess.Popen(["g++", "-std=c++20", "-O0", "-w", "-I", cfg, "-I", os.path.join(tree, "include"), "-I", gt + "/include", "-c",
                                       os.path.join(tree, "test", "test_%s.cpp" % t), "-o", os.path.join(tmp, t + ".o")], stdout=subprocess.DEVNULL, stderr=subprocess.DEVNULL))
    if any(p.wait() != 0 for p in procs): return "nocompile"
    r = sh(["g++"] + [os.path.join(tmp, t + ".o") for t in names] + [os.path.join(REPO, "_build/lib/libgtest.a"), os.path.join(REPO, "_build/lib/libgtest_main.a"), "-lpthread", "-o", os.path.join(tmp, "st_gtests")])
    if r.returncode != 0: return "nocompile"
    try:
        r = sh([os.path.join(tmp, "st_gtests"), "--gtest_brief=1"], cwd=tmp, timeout=120)
    except subprocess.TimeoutExpired:
        return "fail"
    return "pass" if r.returncode == 0 and "PASSED  ] 112 tests" in r.stdout else "fail"

def run_check(prop, tree, scratch):
    env = dict(os.environ, VERIF_REPO=tree, VERIF_EVIDENCE_DIR=scratch, VERIF_REPLAY_DIR=scratch, VERIF_VARIANTS="plain")
    try:
        r = subprocess.run([sys.executable, os.path.join(VERIF, "tools", "check.py"), prop, "--tier", "quick"], stdout=subprocess.PIPE, stderr=subprocess.STDOUT, text=True, errors="replace", env=env, cwd=VERIF, timeout=1200)
    except subprocess.TimeoutExpired:
        return 2, "timeout"
    cls = re.findall(r"violation class=(\S+) site=(\S+)", r.stdout)
    return r.returncode, "; ".join("%s@%s" % c for c in cls[:3]) or r.stdout.strip().splitlines()[-1][:200]

def main():
    args = sys.argv[1:]
    def opt(name, dflt):
        if name in args:
            i = args.index(name); v = args[i + 1]; del args[i:i + 2]; return v
        return dflt
    files = opt("--files", ",".join(ANCHORED)).split(",")
    limit = int(opt("--limit", "120")); seed = int(opt("--seed", "1"))
    out = opt("--out", os.path.join(VERIF, "coverage", "mutation")); props_only = opt("--props", "")
    os.makedirs(out, exist_ok=True)
    rng = random.Random(seed)
    wt = tempfile.mkdtemp(prefix="mcwt."); os.rmdir(wt)
    if sh(["git", "-C", REPO, "worktree", "add", "-q", "--detach", wt, "HEAD"]).returncode != 0:
        print("cannot create worktree"); return 2
    results = open(os.path.join(out, "results.jsonl"), "a")
    try:
        allc = []
        for f in files:
            lines = open(os.path.join(wt, "include", f)).read().split("\n")
            cs = candidates(f, lines)
            allc += [(f, c) for c in cs]
        rng.shuffle(allc)
        # spread over files: round-robin by file
        byf = {}
        for f, c in allc: byf.setdefault(f, []).append(c)
        order = []
        while len(order) < limit and any(byf.values()):
            for f in files:
                if byf.get(f): order.append((f, byf[f].pop()))
        order = order[:limit]
        print("candidates: %d, judging %d" % (len(allc), len(order)), flush=True)
        tally = {}
        for k, (f, cand) in enumerate(order):
            path = os.path.join(wt, "include", f)
            orig = open(path).read()
            lines = orig.split("\n")
            open(path, "w").write("\n".join(apply(lines, cand)))
            diff = sh(["git", "-C", wt, "diff", "--", "include"]).stdout
            tmp = tempfile.mkdtemp(prefix="mcs.")
            t0 = time.time()
            rec = {"file": f, "line": cand[0] + 1, "mutation": cand[1], "before": lines[cand[0]].strip()[:160]}
            try:
                s = suite(wt, tmp)
                rec["suite"] = s
                if s == "pass":
                    caught = []
                    for p in ANCHORED[f]:
                        if props_only and p not in props_only.split(","): continue
                        rc, info = run_check(p, wt, tmp)
                        rec["check_" + p] = {"rc": rc, "info": info}
                        if rc == 1: caught.append(p); break          # one catching check is enough
                    rec["caught_by"] = caught
                    rec["verdict"] = "caught" if caught else "survived"
                    if not caught: rec["diff"] = diff
                else:
                    rec["verdict"] = "killed_by_suite" if s == "fail" else "not_compiling"
            finally:
                shutil.rmtree(tmp, ignore_errors=True)
                open(path, "w").write(orig)
            rec["seconds"] = round(time.time() - t0, 1)
            tally[rec["verdict"]] = tally.get(rec["verdict"], 0) + 1
            results.write(json.dumps(rec) + "\n"); results.flush()
            print("[%d/%d] %s:%d %-28s -> %s %s (%.0f s)" % (k + 1, len(order), f, rec["line"], cand[1], rec["verdict"], ",".join(rec.get("caught_by", [])), rec["seconds"]), flush=True)
        with open(os.path.join(out, "summary.txt"), "a") as sm:
            sm.write("seed=%d files=%s judged=%d %s\n" % (seed, ",".join(files), len(order), json.dumps(tally)))
        print("summary:", json.dumps(tally))
    finally:
        sh(["git", "-C", REPO, "worktree", "remove", "--force", wt]); shutil.rmtree(wt, ignore_errors=True)
    return 0

if __name__ == "__main__":
    sys.exit(main())
