#!/usr/bin/env python3
"""Hash-keyed build of the simulators against /repo's current working tree.

usage: build.py <engine> <variant>     engine: simA|simB|simC   variant: plain|asan|sched
prints the directory that holds the binaries.  Rebuilds exactly when /repo/include/**, the generated
st_config.h, the harness sources or the flags change.  A flock serialises concurrent builds.
"""
import fcntl, hashlib, os, shutil, subprocess, sys, time
from concurrent.futures import ThreadPoolExecutor

VERIF = os.path.dirname(os.path.dirname(os.path.abspath(__file__)))
REPO = os.environ.get("VERIF_REPO", "/repo")
BUILD = os.path.join(VERIF, "build")
CXX = os.environ.get("CXX", "g++")

COMMON = ["-std=c++20", "-w", "-pthread", "-DSIMRT_WRAP_MALLOC"]
VARIANTS = {
    "plain": {"sut": ["-O1", "-fsanitize-coverage=trace-pc"], "rt": ["-O2"], "link": [], "defs": []},
    "sched": {"sut": ["-O1", "-fsanitize=thread", "-fsanitize-coverage=trace-pc"], "rt": ["-O2"], "link": [], "defs": []},
    # the same without optimisation: at -O1 gcc expands constant-size memset / memcpy / char_traits::assign "by pieces" into plain vector stores *after* the
    # tsan pass, so those writes are invisible to the detector; at -O0 every one of them stays a libc call and goes through the --wrap'ped wrappers
    "sched0": {"sut": ["-O0", "-fsanitize=thread", "-fsanitize-coverage=trace-pc"], "rt": ["-O2"], "link": [], "defs": []},
    # the other choice a platform may make for plain char (ARM, PowerPC): the same simulators with -funsigned-char on every translation unit
    "plainuc": {"sut": ["-O2", "-funsigned-char", "-fsanitize-coverage=trace-pc"], "rt": ["-O2", "-funsigned-char"], "link": [], "defs": []},
    # a release-style build as most users ship it: -O2 and NDEBUG (everything wrapped in assert() disappears)
    "plainrel": {"sut": ["-O2", "-DNDEBUG", "-fsanitize-coverage=trace-pc"], "rt": ["-O2"], "link": [], "defs": []},
    # reach measurement only (tools/coverage.py): gcov counters on the library code, never used by a registered check
    "cov": {"sut": ["-O0", "--coverage", "-fsanitize-coverage=trace-pc"], "rt": ["-O2"], "link": ["--coverage"], "defs": []},
    "schedcov": {"sut": ["-O0", "--coverage", "-fprofile-update=single", "-fsanitize=thread", "-fsanitize-coverage=trace-pc"], "rt": ["-O2"], "link": ["--coverage"], "defs": ["-DSIM_GCOV"]},
    "asan": {"sut": ["-O1", "-g1", "-fsanitize-coverage=trace-pc", "-fsanitize=address,undefined", "-fno-sanitize-recover=undefined", "-fno-omit-frame-pointer"],
             "rt": ["-O1", "-g1", "-fsanitize=address"], "link": ["-fsanitize=address,undefined"], "defs": ["-DSIMRT_ASAN"]},
}
ENGINES = {
    "simA": {"sut": ["simA/core.cpp", "simA/ops_buf.cpp", "simA/ops_ss.cpp", "simA/ops_str_a.cpp", "simA/ops_str_b.cpp", "simA/run.cpp",
                     "simA/enum19.cpp", "simA/main.cpp"],
             # compiled at -O2 without the step-clock instrumentation, whose callbacks act as optimisation barriers (simA/straight.cpp says why)
             "sut_opt": ["simA/straight.cpp"],
             "rt": ["simrt/heap.cpp", "simrt/clock_fatal.cpp"],
             "link": ["-Wl,--wrap=abort", "-Wl,--wrap=fprintf", "-Wl,--wrap=malloc", "-Wl,--wrap=calloc", "-Wl,--wrap=realloc", "-Wl,--wrap=free", "-Wl,--wrap=strdup", "-Wl,--wrap=strndup", "-Wl,--wrap=aligned_alloc", "-Wl,--wrap=posix_memalign"], "bin": "simA"},
    "simB": {"sut": ["simB/ops.cpp", "simB/ops2.cpp", "simB/main.cpp"], "rt": [], "so": ["simB/rt.cpp", "simrt/heap.cpp", "simrt/clock_fatal.cpp"], "bin": "simB",
             "link": ["-rdynamic", "-ldl"] + ["-Wl,--wrap=" + s for s in
                      ["abort", "fprintf", "memcpy", "memmove", "memset", "memcmp", "memchr", "strlen", "wmemcpy", "wmemmove", "wmemset", "wmemcmp", "wmemchr", "wcslen",
                       "snprintf", "strtol", "strtoul", "strtoll", "strtoull", "strtof", "strtod", "__cxa_guard_acquire", "__cxa_guard_release", "__cxa_guard_abort",
                       "pthread_mutex_lock", "pthread_mutex_trylock", "pthread_mutex_unlock", "pthread_once", "pthread_cond_wait", "pthread_cond_timedwait",
                       "pthread_rwlock_rdlock", "pthread_rwlock_wrlock",
                       "setlocale", "localeconv", "strtok", "rand", "srand", "strerror", "gmtime", "localtime", "asctime", "ctime", "getenv", "setenv", "putenv", "unsetenv",
                       "mblen", "mbtowc", "wctomb", "mbstowcs", "wcstombs", "mbrtowc", "wcrtomb", "mbrlen", "mbsrtowcs", "wcsrtombs", "toupper", "tolower", "towupper", "towlower",
                       "sprintf", "vsnprintf", "malloc", "calloc", "realloc", "free", "strdup", "strndup", "aligned_alloc", "posix_memalign"]]},
    "simC": {"sut": ["simC/simc.cpp", "simC/main.cpp"], "rt": ["simrt/heap.cpp", "simrt/clock_fatal.cpp"],
             "link": ["-Wl,--wrap=abort", "-Wl,--wrap=fprintf", "-Wl,--wrap=malloc", "-Wl,--wrap=calloc", "-Wl,--wrap=realloc", "-Wl,--wrap=free", "-Wl,--wrap=strdup", "-Wl,--wrap=strndup", "-Wl,--wrap=aligned_alloc", "-Wl,--wrap=posix_memalign"], "bin": "simC"},
}

def tree_hash(paths):
    h = hashlib.sha256()
    for root in paths:
        if os.path.isfile(root):
            files = [root]
        else:
            files = []
            for d, _, fs in os.walk(root):
                for f in fs:
                    files.append(os.path.join(d, f))
        for f in sorted(files):
            h.update(f.encode()); h.update(b"\0")
            with open(f, "rb") as fh:
                h.update(fh.read())
            h.update(b"\0")
    return h

def main():
    engine, variant = sys.argv[1], sys.argv[2]
    eng, var = ENGINES[engine], VARIANTS[variant]
    os.makedirs(BUILD, exist_ok=True)
    h = tree_hash([os.path.join(REPO, "include"), os.path.join(REPO, "cmake"), os.path.join(REPO, "CMakeLists.txt"),
                   os.path.join(VERIF, engine), os.path.join(VERIF, "simrt"), os.path.join(VERIF, "tools", "gen_config.py"),
                   os.path.abspath(__file__)])
    h.update(repr((engine, variant, CXX)).encode())
    key = h.hexdigest()[:16]
    out = os.path.join(BUILD, "%s-%s-%s" % (engine, variant, key))
    binpath = os.path.join(out, eng["bin"])
    lock = open(os.path.join(BUILD, ".lock-%s-%s" % (engine, variant)), "w")
    fcntl.flock(lock, fcntl.LOCK_EX)
    try:
        if os.path.exists(os.path.join(out, ".ok")):
            os.utime(out, None)
            print(out)
            return 0
        t0 = time.time()
        shutil.rmtree(out, ignore_errors=True)
        os.makedirs(os.path.join(out, "inc"))
        subprocess.check_call([sys.executable, os.path.join(VERIF, "tools", "gen_config.py"), REPO, os.path.join(out, "inc", "st_config.h")])
        inc = ["-I", os.path.join(out, "inc"), "-I", os.path.join(REPO, "include"), "-I", VERIF]
        jobs = []
        for src in eng["sut"]:
            obj = os.path.join(out, src.replace("/", "_") + ".o")
            jobs.append(([CXX] + COMMON + var["sut"] + var["defs"] + inc + ["-c", os.path.join(VERIF, src), "-o", obj], obj))
        for src in eng.get("sut_opt", []):
            obj = os.path.join(out, src.replace("/", "_") + ".o")
            flags = [f for f in var["sut"] if not f.startswith("-fsanitize-coverage") and not f.startswith("-O")] + ["-O2"]
            jobs.append(([CXX] + COMMON + flags + var["defs"] + inc + ["-c", os.path.join(VERIF, src), "-o", obj], obj))
        for src in eng["rt"]:
            obj = os.path.join(out, src.replace("/", "_") + ".o")
            jobs.append(([CXX] + COMMON + var["rt"] + var["defs"] + inc + ["-c", os.path.join(VERIF, src), "-o", obj], obj))
        so_objs = []
        for src in eng.get("so", []):
            obj = os.path.join(out, "so_" + src.replace("/", "_") + ".o")
            jobs.append(([CXX] + COMMON + ["-O2", "-fPIC", "-DSIMRT_NO_TRACE_PC", "-DSIMRT_SO"] + inc + ["-c", os.path.join(VERIF, src), "-o", obj], obj))
            so_objs.append(obj)
        def run(job):
            r = subprocess.run(job[0], stdout=subprocess.PIPE, stderr=subprocess.STDOUT, text=True)
            return (r.returncode, r.stdout, job)
        with ThreadPoolExecutor(max_workers=min(16, len(jobs))) as ex:
            results = list(ex.map(run, jobs))
        bad = [r for r in results if r[0] != 0]
        if bad:
            for rc, outp, job in bad:
                sys.stderr.write("BUILD FAILED: %s\n%s\n" % (" ".join(job[0]), outp[-6000:]))
            return 2
        objs = [j[1] for j in jobs if j[1] not in so_objs]
        solink = []
        if so_objs:
            so = os.path.join(out, "libsimb_rt.so")
            r = subprocess.run([CXX, "-shared", "-pthread"] + so_objs + ["-ldl", "-o", so], stdout=subprocess.PIPE, stderr=subprocess.STDOUT, text=True)
            if r.returncode != 0:
                sys.stderr.write("SO LINK FAILED:\n%s\n" % r.stdout[-6000:])
                return 2
            solink = ["-L" + out, "-lsimb_rt", "-Wl,-rpath," + out]
        link = [CXX] + COMMON + objs + solink + eng["link"] + var["link"] + ["-o", binpath]
        r = subprocess.run(link, stdout=subprocess.PIPE, stderr=subprocess.STDOUT, text=True)
        if r.returncode != 0:
            sys.stderr.write("LINK FAILED: %s\n%s\n" % (" ".join(link), r.stdout[-6000:]))
            return 2
        open(os.path.join(out, ".ok"), "w").write("%.1f s\n" % (time.time() - t0))
        # garbage-collect older builds of the same engine/variant: keep the 4 most recent, and never remove one used in the last
        # 45 minutes (another check, e.g. one judging a seeded change on a scratch worktree, may still be running from it)
        sib = sorted([d for d in os.listdir(BUILD) if d.startswith("%s-%s-" % (engine, variant))],
                     key=lambda d: os.path.getmtime(os.path.join(BUILD, d)), reverse=True)
        for d in sib[4:]:
            if time.time() - os.path.getmtime(os.path.join(BUILD, d)) > 45 * 60:
                shutil.rmtree(os.path.join(BUILD, d), ignore_errors=True)
        print(out)
        return 0
    finally:
        fcntl.flock(lock, fcntl.LOCK_UN)

if __name__ == "__main__":
    sys.exit(main())
