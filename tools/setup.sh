#!/bin/bash
# MANIFEST.setup_cmd: build every simulator variant from files on disk (offline).
set -e
cd "$(dirname "$0")/.."
pids=()
for ev in "simA plain" "simA asan" "simA plainuc" "simA plainrel" "simC plain" "simC asan" "simC plainuc" "simC plainrel" "simB sched" "simB sched0"; do
    python3 tools/build.py $ev >/dev/null &
    pids+=($!)
done
rc=0
for p in "${pids[@]}"; do wait $p || rc=2; done
[ -x tools/setup_extra.sh ] && { tools/setup_extra.sh || rc=2; }
exit $rc
