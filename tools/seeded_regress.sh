#!/bin/bash
# Re-judge every seeded change against the checks named in its meta.json (three at a time; each on its own scratch worktree,
# so /repo, the committed evidence and the replays stay untouched).
# usage: seeded_regress.sh [out_file]
cd "$(dirname "$0")/.."
out=${1:-/tmp/seeded_regress.txt}
tmp=$(mktemp -d /tmp/sregress.XXXXXX)
trap 'rm -rf "$tmp"' EXIT
judge_one() {
    d=$1; id=$(basename "$d")
    props=$(python3 -c "import json;print(' '.join(json.load(open('$d/meta.json'))['checked']['caught_by']))")
    caught=no
    for p in $props; do
        res=$(tools/mutant.sh check "$d/patch.diff" "$p" 2>&1)
        if echo "$res" | grep -q "^VIOLATION property=$p" && echo "$res" | grep -q "CHECK $p rc=1"; then caught="$p"; break; fi
    done
    echo "$id caught_by=$caught"
}
judge_hand() {
    f=$1; n=$(basename "$f" .diff); p=$(grep "^| $n " seeded/hand/README.md | cut -d'|' -f3 | tr -d ' ')
    res=$(tools/mutant.sh check "$f" "$p" 2>&1)
    if echo "$res" | grep -q "^VIOLATION property=$p"; then echo "hand/$n caught_by=$p"; else echo "hand/$n caught_by=no"; fi
}
judge_neg() {
    f=$1; res=$(tools/mutant.sh check "$f" C20 2>&1)
    if echo "$res" | grep -q "CHECK C20 rc=0"; then echo "negative/$(basename $f .diff) silent=yes"; else echo "negative/$(basename $f .diff) silent=NO"; fi
}
export -f judge_one judge_hand judge_neg
ls -d seeded/C*-*/ | xargs -P 3 -I{} bash -c 'judge_one {}' > "$tmp/a.txt"
ls seeded/hand/*.diff | xargs -P 3 -I{} bash -c 'judge_hand {}' > "$tmp/b.txt"
ls seeded/negative/*.diff | xargs -P 3 -I{} bash -c 'judge_neg {}' > "$tmp/c.txt"
sort -V "$tmp/a.txt" > "$out"; sort "$tmp/b.txt" >> "$out"; sort "$tmp/c.txt" >> "$out"
cat "$out"
echo "not caught: $(grep -c 'caught_by=no' "$out")   negative controls reported: $(grep -c 'silent=NO' "$out")"
