#!/bin/bash
# Re-judge every seeded change against the checks named in its meta.json (sequentially; each on a scratch worktree).
# usage: seeded_regress.sh [out_file]
cd "$(dirname "$0")/.."
out=${1:-/tmp/seeded_regress.txt}
: > "$out"
for d in seeded/C*-*/; do
    id=$(basename "$d")
    props=$(python3 -c "import json;print(' '.join(json.load(open('$d/meta.json'))['checked']['caught_by']))")
    caught=no
    for p in $props; do
        res=$(tools/mutant.sh check "$d/patch.diff" "$p" 2>&1)
        if echo "$res" | grep -q "^VIOLATION property=$p" && echo "$res" | grep -q "CHECK $p rc=1"; then caught="$p"; break; fi
    done
    echo "$id caught_by=$caught" | tee -a "$out"
done
for f in seeded/hand/*.diff; do
    n=$(basename "$f" .diff); p=$(grep "^| $n " seeded/hand/README.md | cut -d'|' -f3 | tr -d ' ')
    res=$(tools/mutant.sh check "$f" "$p" 2>&1)
    if echo "$res" | grep -q "^VIOLATION property=$p"; then echo "hand/$n caught_by=$p" | tee -a "$out"; else echo "hand/$n caught_by=no" | tee -a "$out"; fi
done
for f in seeded/negative/*.diff; do
    res=$(tools/mutant.sh check "$f" C20 2>&1)
    if echo "$res" | grep -q "CHECK C20 rc=0"; then echo "negative/$(basename $f .diff) silent=yes" | tee -a "$out"; else echo "negative/$(basename $f .diff) silent=NO" | tee -a "$out"; fi
done
