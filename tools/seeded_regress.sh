#!/bin/bash
# Re-judge every seeded change against the checks named in its meta.json (three at a time; each on its own scratch worktree,
# so /repo, the committed evidence and the replays stay untouched).
# usage: seeded_regress.sh [out_file]
cd "$(dirname "$0")/.."
out=${1:-/tmp/seeded_regress.txt}
tmp=$(mktemp -d /tmp/sregress.XXXXXX)
trap 'rm -rf "$tmp"' EXIT
judge_one() {
    d=$1; id=$(basename "$d")
    props=$(python3 -c "import json;print(' '.join(json.load(open('$d/meta.json'))['checked']['caught_by']))")
    caught=no
    for p in $props; do
        res=$(tools/mutant.sh check "$d/patch.diff" "$p" 2>&1)
        if echo "$res" | grep -q "^VIOLATION property=$p" && echo "$res" | grep -q "CHECK $p rc=1"; then caught="$p"; break; fi
    done
    echo "$id caught_by=$caught"
}
judge_hand() {
    f=$1; n=$(basename "$f" .diff); p=$(grep "^| $n " seeded/hand/README.md | cut -d'|' -f3 | tr -d ' ')
    res=$(tools/mutant.sh check "$f" "$p" 2>&1)
    if echo "$res" | grep -q "^VIOLATION property=$p"; then echo "hand/$n caught_by=$p"; else echo "hand/$n caught_by=no"; fi
}
judge_neg() {
    # correctly synchronised / correctly per-thread state: C20 must stay silent, and - because such state holds storage until the thread or the
    # process ends - so must the leak oracle of the engine-A checks (retained is not leaked, DESIGN.md 2.2)
    f=$1; props="C20"; case "$(basename $f .diff)" in mutex_cache|tls_format_stream) props="C20 C04 C18 C19";; esac
    ok=yes
    for p in $props; do res=$(tools/mutant.sh check "$f" $p 2>&1); echo "$res" | grep -q "CHECK $p rc=0" || ok="NO($p)"; done
    echo "negative/$(basename $f .diff) silent=$ok"
}
export -f judge_one judge_hand judge_neg
ls -d seeded/C*-*/ | xargs -P 3 -I{} bash -c 'judge_one {}' > "$tmp/a.txt"
ls seeded/hand/*.diff | xargs -P 3 -I{} bash -c 'judge_hand {}' > "$tmp/b.txt"
ls seeded/negative/*.diff | xargs -P 3 -I{} bash -c 'judge_neg {}' > "$tmp/c.txt"
sort -V "$tmp/a.txt" > "$out"; sort "$tmp/b.txt" >> "$out"; sort "$tmp/c.txt" >> "$out"
cat "$out"
echo "not caught: $(grep -c 'caught_by=no' "$out")   negative controls reported: $(grep -c 'silent=NO' "$out")"
