#!/bin/bash
# Build and run the pinned gtest suite (112 tests) against a source tree.
# usage: run_suite.sh [tree]     (default /repo; for /repo the pinned cmake build dir is used)
# For scratch worktrees the tests are compiled by hand against the gtest libraries of the pinned build.
set -e
TREE=${1:-/repo}
if [ "$TREE" = "/repo" ] && [ -d /repo/_build ]; then
    cmake --build /repo/_build >/dev/null
    cd /repo/_build/test && exec ./st_gtests --gtest_brief=1
fi
OUT=$(mktemp -d /tmp/st_suite.XXXXXX)
trap 'rm -rf "$OUT"' EXIT
python3 "$(dirname "$0")/gen_config.py" "$TREE" "$OUT/st_config.h"
GT=/usr/src/googletest/googletest
pids=()
for t in buffer string codecs iostream sstream format stdio regress; do
    g++ -std=c++20 -O1 -w -I"$OUT" -I"$TREE/include" -I"$GT/include" -c "$TREE/test/test_$t.cpp" -o "$OUT/$t.o" &
    pids+=($!)
done
for p in "${pids[@]}"; do wait $p; done
g++ "$OUT"/*.o /repo/_build/lib/libgtest.a /repo/_build/lib/libgtest_main.a -lpthread -o "$OUT/st_gtests"
cd "$OUT" && ./st_gtests --gtest_brief=1
