#!/bin/bash
# Helpers for seeded mutants.
#   mutant.sh confirm <dir> [extra g++ flags]   in a scratch worktree: suite passes with patch, demo fails with patch and passes without
#   mutant.sh suite <patch.diff>               run the pinned suite on a scratch worktree with the patch applied
#   mutant.sh check <patch.diff> <PROP>...      apply the patch to /repo, run the quick checks of the given properties, undo the patch
set -u
VERIF=$(cd "$(dirname "$0")/.." && pwd)      # (works from a snapshot of /verif too)
cmd=$1; shift
case "$cmd" in
confirm)
    dir=$(realpath "$1"); shift
    wt=$(mktemp -d /tmp/mutwt.XXXXXX); rmdir "$wt"
    git -C /repo worktree add -q "$wt" HEAD || exit 2
    trap 'git -C /repo worktree remove --force "$wt" >/dev/null 2>&1; rm -rf "$wt" /tmp/mutdemo.$$' EXIT
    cfg=$(mktemp -d /tmp/mutcfg.XXXXXX); python3 "$VERIF"/tools/gen_config.py "$wt" "$cfg/st_config.h"
    build_demo() { g++ -std=c++20 -w -pthread "$@" -I"$cfg" -I"$wt/include" "$dir/demo.cpp" -o /tmp/mutdemo.$$ ; }
    run_demo() { ( cd /tmp && timeout 20 /tmp/mutdemo.$$ >/tmp/mutdemo.$$.out 2>&1 ); echo $?; }
    build_demo "$@" || { echo "CONFIRM: demo does not build on clean tree"; exit 1; }
    clean_rc=$(run_demo)
    git -C "$wt" apply "$dir/patch.diff" || { echo "CONFIRM: patch does not apply"; exit 1; }
    build_demo "$@" || { echo "CONFIRM: demo does not build with patch (property-breaking change must still compile?)"; }
    mut_rc=$(run_demo); tail -3 /tmp/mutdemo.$$.out
    suite=$(bash "$VERIF"/tools/run_suite.sh "$wt" 2>&1 | tail -1)
    rm -rf "$cfg" /tmp/mutdemo.$$.out
    echo "CONFIRM: demo clean rc=$clean_rc, demo with patch rc=$mut_rc, suite with patch: $suite"
    [ "$clean_rc" = 0 ] && [ "$mut_rc" != 0 ] && echo "$suite" | grep -q "PASSED  \] 112 tests" && { echo "CONFIRMED"; exit 0; }
    echo "NOT CONFIRMED"; exit 1 ;;
suite)
    patch=$(realpath "$1"); shift
    wt=$(mktemp -d /tmp/mutwt.XXXXXX); rmdir "$wt"
    git -C /repo worktree add -q "$wt" HEAD || exit 2
    trap 'git -C /repo worktree remove --force "$wt" >/dev/null 2>&1; rm -rf "$wt"' EXIT
    git -C "$wt" apply "$patch" || { echo "SUITE: patch does not apply"; exit 1; }
    bash "$VERIF"/tools/run_suite.sh "$wt" 2>&1 | tail -1 ;;
check)
    # judged on a scratch worktree (VERIF_REPO) so that /repo, the committed evidence and replays stay untouched;
    # `checkrepo` does the same by applying the patch to /repo itself and undoing it afterwards
    patch=$(realpath "$1"); shift
    wt=$(mktemp -d /tmp/mutwt.XXXXXX); rmdir "$wt"
    git -C /repo worktree add -q "$wt" HEAD || exit 2
    scratch=$(mktemp -d /tmp/mutev.XXXXXX)
    trap 'git -C /repo worktree remove --force "$wt" >/dev/null 2>&1; rm -rf "$wt" "$scratch"' EXIT
    git -C "$wt" apply "$patch" || exit 2
    for p in "$@"; do
        out=$(cd "$VERIF" && VERIF_REPO="$wt" VERIF_EVIDENCE_DIR="$scratch" VERIF_REPLAY_DIR="$scratch" python3 tools/check.py "$p" --tier quick 2>&1); rc=$?
        echo "$out" | grep -E "VIOLATION|violation class|INFRA|KNOWN|quick:" | cut -c1-260
        echo "CHECK $p rc=$rc"
    done ;;
checkrepo)
    patch=$(realpath "$1"); shift
    [ -z "$(git -C /repo status --porcelain --untracked-files=no)" ] || { echo "/repo has local changes"; exit 2; }
    git -C /repo apply "$patch" || exit 2
    trap 'git -C /repo checkout -- . ' EXIT
    for p in "$@"; do
        out=$(cd "$VERIF" && python3 tools/check.py "$p" --tier quick 2>&1); rc=$?
        echo "$out" | grep -E "VIOLATION|violation class|INFRA|KNOWN|quick:" | cut -c1-260
        echo "CHECK $p rc=$rc"
    done ;;
esac
