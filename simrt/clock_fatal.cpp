// Step clock (simulated time = basic-block edges executed by library code)
// and fatal-event classification.  Uninstrumented TU.
#include "simrt.h"
#include <cstdarg>
#include <cstdlib>
#include <cstring>
#include <csignal>
#include <exception>
#include <typeinfo>
#include <unistd.h>
#include <cxxabi.h>
#include <initializer_list>

namespace simrt {

namespace {
volatile bool g_armed = false;
uint64_t g_steps = 0, g_budget = 0, g_total = 0;
char g_context[512] = "";
char g_assert_text[512] = "";
bool g_dying = false;
}

void clock_arm(uint64_t budget) { g_steps = 0; g_budget = budget; g_armed = true; }
uint64_t clock_disarm() { g_armed = false; g_total += g_steps; return g_steps; }
uint64_t clock_total() { return g_total + (g_armed ? g_steps : 0); }
const char *last_assert_text() { return g_assert_text; }

void fatal_context(const char *fmt, ...) {
    va_list ap; va_start(ap, fmt);
    std::vsnprintf(g_context, sizeof g_context, fmt, ap);
    va_end(ap);
}

static void sanitize(char *s) { for (; *s; ++s) if (*s == '\n' || *s == '\r') *s = ' '; }

[[noreturn]] void fatal(const char *cls, const char *detail) {
    if (!g_dying) {
        g_dying = true;
        g_armed = false;
        char line[1400];
        char d[700]; std::snprintf(d, sizeof d, "%s", detail ? detail : ""); sanitize(d);
        int n = std::snprintf(line, sizeof line, "FATAL %s class=%s detail=%s\n", g_context, cls, d);
        if (n > (int)sizeof line - 1) n = sizeof line - 1;
        std::fflush(stdout);
        ssize_t w = ::write(1, line, (size_t)n); (void)w;
    }
    ::_exit(EXIT_FATAL);
}

namespace {
void on_terminate() {
    char buf[300] = "no active exception";
    if (std::type_info *t = abi::__cxa_current_exception_type()) {
        int st = 0; char *dn = abi::__cxa_demangle(t->name(), nullptr, nullptr, &st);
        std::snprintf(buf, sizeof buf, "uncaught %s", (st == 0 && dn) ? dn : t->name());
    }
    fatal("terminate", buf);
}
void on_alarm(int) {
    fatal("hang", "run still executing after its wall-clock allowance although no library call exceeded its step budget (harness memory corrupted?)");
}
void on_signal(int sig) {
    char buf[64]; std::snprintf(buf, sizeof buf, "signal %d (%s)", sig, strsignal(sig));
    fatal("signal", buf);
}
#ifdef SIMRT_ASAN
char g_asan_kind[200] = "";
void asan_report(const char *report) {
    // first line looks like "==123==ERROR: AddressSanitizer: heap-use-after-free on address ..."
    const char *p = std::strstr(report, "AddressSanitizer: ");
    if (p) { p += 18; size_t i = 0; while (p[i] && p[i] != ' ' && p[i] != '\n' && i < sizeof g_asan_kind - 1) { g_asan_kind[i] = p[i]; ++i; } g_asan_kind[i] = 0; }
}
void on_death() {
    if (g_dying) return;
    g_dying = true;
    char line[900];
    int n = std::snprintf(line, sizeof line, "FATAL %s class=sanitizer detail=%s\n", g_context,
                          g_asan_kind[0] ? g_asan_kind : "undefined-behavior-or-other");
    std::fflush(stdout);
    ssize_t w = ::write(1, line, (size_t)n); (void)w;
}
#endif
} // namespace

#ifdef SIMRT_ASAN
extern "C" void __asan_set_error_report_callback(void (*)(const char *));
extern "C" void __sanitizer_set_death_callback(void (*)(void));
#endif

// Wall-clock allowance for one run.  It never influences a run that terminates (a run takes milliseconds, the allowance is a minute); it only
// turns a worker that spins *outside* library code - where the step clock does not tick, e.g. after a library defect overwrote harness memory -
// into a classified fatal event instead of a supervisor that waits for ever.
void run_deadline(unsigned seconds) { ::alarm(seconds); }

void fatal_install() {
    std::set_terminate(on_terminate);
    { struct sigaction sa; std::memset(&sa, 0, sizeof sa); sa.sa_handler = on_alarm; sigaction(SIGALRM, &sa, nullptr); }
#ifdef SIMRT_ASAN
    __asan_set_error_report_callback(asan_report);
    __sanitizer_set_death_callback(on_death);
#else
    static char altstack[1 << 16];
    stack_t ss; ss.ss_sp = altstack; ss.ss_size = sizeof altstack; ss.ss_flags = 0;
    sigaltstack(&ss, nullptr);
    struct sigaction sa; std::memset(&sa, 0, sizeof sa);
    sa.sa_handler = on_signal; sa.sa_flags = SA_ONSTACK | SA_NODEFER;
    for (int s : {SIGSEGV, SIGBUS, SIGFPE, SIGILL, SIGABRT}) sigaction(s, &sa, nullptr);
#endif
}

} // namespace simrt

// ---- compiler-inserted step callback (SUT TUs are built with -fsanitize-coverage=trace-pc)
#ifndef SIMRT_NO_TRACE_PC
extern "C" void __sanitizer_cov_trace_pc() {
    using namespace simrt;
    if (!g_armed || g_in_sut <= 0) return;
    if (++g_steps > g_budget) {
        char buf[96]; std::snprintf(buf, sizeof buf, "operation still running after %llu steps (budget %llu)",
                                    (unsigned long long)g_steps, (unsigned long long)g_budget);
        g_total += g_steps;
        fatal("no_progress", buf);
    }
}
#endif

// ---- link-time wrappers (-Wl,--wrap=abort,--wrap=fprintf): capture ST_ASSERT text, classify abort
extern "C" int __wrap_fprintf(FILE *f, const char *fmt, ...) {
    va_list ap; va_start(ap, fmt);
    int r;
    if (f == stderr && simrt::g_in_sut > 0) {
        r = std::vsnprintf(simrt::g_assert_text, sizeof simrt::g_assert_text, fmt, ap);
    } else {
        r = std::vfprintf(f, fmt, ap);
    }
    va_end(ap);
    return r;
}
extern "C" void __wrap_abort() {
    char buf[600];
    // strip the file path prefix so the class does not depend on where /repo lives
    const char *t = simrt::g_assert_text;
    const char *colon = std::strchr(t, ':');
    if (colon) { const char *s = colon; while (s > t && s[-1] != '/') --s; t = s; }
    std::snprintf(buf, sizeof buf, "%s", t[0] ? t : "abort() called");
    simrt::fatal("abort", buf);
}

#ifdef SIMRT_ASAN
extern "C" __attribute__((used)) const char *__asan_default_options() {
    return "exitcode=77:detect_leaks=0:abort_on_error=0:allocator_may_return_null=1:alloc_dealloc_mismatch=0:print_summary=0";
}
extern "C" __attribute__((used)) const char *__ubsan_default_options() {
    return "halt_on_error=1:print_stacktrace=0:exitcode=77";
}
#endif
