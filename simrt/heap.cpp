// Heap seam: replacement of the global operator new/delete family.
// Forwards to malloc/free (ASan still sees real allocations in the asan
// variant) and adds ledger, fault plan, fill patterns and reuse policy.
#include "simrt.h"
#include <cstdlib>
#include <cstring>
#include <new>
#include <atomic>
#include <unordered_map>
#include <unordered_set>
#include <vector>
#include <sys/mman.h>
#include <link.h>
#include <algorithm>
#include <unistd.h>

// The C allocator is part of the seam too: references to malloc / calloc / realloc / free made by the simulator's own objects (the library
// headers are compiled into them) are redirected here with -Wl,--wrap.  Inside this file the real functions are used.  The shared-object
// build of engine B's runtime is not subject to --wrap: there the plain names already are the real functions.
#if defined(SIMRT_WRAP_MALLOC) && !defined(SIMRT_SO)
extern "C" void *__real_malloc(size_t); extern "C" void *__real_calloc(size_t, size_t); extern "C" void *__real_realloc(void *, size_t); extern "C" void __real_free(void *);
extern "C" void *__real_aligned_alloc(size_t, size_t); extern "C" int __real_posix_memalign(void **, size_t, size_t);
#define RAW_MALLOC __real_malloc
#define RAW_FREE __real_free
#define RAW_ALIGNED __real_aligned_alloc
#else
#define RAW_MALLOC std::malloc
#define RAW_FREE std::free
#define RAW_ALIGNED std::aligned_alloc
#endif

namespace simrt {

thread_local int g_in_sut = 0;
void (*g_heap_range_hook)(const void *, size_t) = nullptr;     // engine B: shadow state of a block is cleared on hand-over

namespace {

template <class T> struct MallocAlloc {
    typedef T value_type;
    MallocAlloc() = default;
    template <class U> MallocAlloc(const MallocAlloc<U> &) {}
    T *allocate(size_t n) { void *p = RAW_MALLOC(n * sizeof(T)); if (!p) std::abort(); return (T *)p; }
    void deallocate(T *p, size_t) { RAW_FREE(p); }
    template <class U> bool operator==(const MallocAlloc<U> &) const { return true; }
    template <class U> bool operator!=(const MallocAlloc<U> &) const { return false; }
};

struct Entry { uint64_t id; size_t size; bool array; bool sut; bool aligned; uint32_t epoch; bool cstyle; bool huge = false; void *map_base = nullptr; size_t map_len = 0; };      // cstyle: from malloc / calloc / realloc
#ifdef SIMRT_ASAN
const size_t RZ = 0;          // AddressSanitizer has its own redzones (ours would hide overruns from it)
#else
const size_t RZ = 32;         // guard bytes before and after every block: overruns are detected deterministically
#endif
const unsigned char RZ_BYTE = 0xFA;
inline bool rz_intact(const void *user, size_t size) {
    const unsigned char *u = (const unsigned char *)user;
    for (size_t i = 0; i < RZ; i++) if (u[-(ptrdiff_t)RZ + (ptrdiff_t)i] != RZ_BYTE || u[size + i] != RZ_BYTE) return false;
    return true;
}
typedef std::unordered_map<const void *, Entry, std::hash<const void *>, std::equal_to<const void *>,
                           MallocAlloc<std::pair<const void *const, Entry>>> Ledger;
typedef std::unordered_set<const void *, std::hash<const void *>, std::equal_to<const void *>,
                           MallocAlloc<const void *>> PtrSet;
typedef std::vector<void *, MallocAlloc<void *>> PtrVec;

struct State {
    Ledger ledger;
    PtrSet freed;          // bases freed during this run and not handed out again
    PtrVec quarantine;
    PtrSet quarantined;    // user pointers of the blocks in `quarantine` (still withheld from the real allocator)
    struct Spare { size_t size; void *user; };
    std::vector<Spare, MallocAlloc<Spare>> spare;      // HEAP_SHARED_LIFO: released SUT blocks, most recent last
    HeapPolicy policy = HEAP_IMMEDIATE;
    uint8_t fill_fresh = 0xA5, fill_freed = 0xDD;
    bool run_active = false;
    uint32_t epoch = 0;
    uint64_t next_id = 1;
    size_t live_sut_this_run = 0;
    HeapViolation viol = HV_NONE;
    char viol_detail[160] = {0};
    uint64_t total_sut_allocs = 0, total_faults = 0;
};

// per-operation fault plan and counters: one set per thread (engine B interleaves operations of several caller threads; engines A and C
// only ever use the main thread, for which this is the same as a global)
thread_local uint32_t t_op_allocs = 0, t_op_frees = 0, t_fail_at = 0;
thread_local bool t_fault_fired = false;

State *S() {
    // constructed on first use, never destroyed (allocations happen before/after main)
    static State *s = nullptr;
    if (!s) { void *m = RAW_MALLOC(sizeof(State)); s = new (m) State(); }
    return s;
}

std::atomic_flag g_lock = ATOMIC_FLAG_INIT;
struct Lock {
    Lock() { while (g_lock.test_and_set(std::memory_order_acquire)) { } }
    ~Lock() { g_lock.clear(std::memory_order_release); }
};

void note_violation(State *s, HeapViolation v, const char *what, const Entry *e) {
    if (s->viol != HV_NONE) return;
    s->viol = v;
    if (e) std::snprintf(s->viol_detail, sizeof s->viol_detail, "%s block#%llu size=%zu %s", what,
                         (unsigned long long)e->id, e->size, e->array ? "new[]" : "new");
    else std::snprintf(s->viol_detail, sizeof s->viol_detail, "%s", what);
}

void *do_alloc(size_t size, bool array, size_t align, bool nothrow, bool cstyle = false) {
    const bool sut = g_in_sut > 0;
    State *s = S();
    bool fail = false;
    {
        Lock l;
        if (sut) {
            ++t_op_allocs;
            ++s->total_sut_allocs;
            if (t_fail_at && t_op_allocs == t_fail_at) {
                t_fault_fired = true;
                ++s->total_faults;
                fail = true;
            }
        }
    }
    if (fail) { if (nothrow) return nullptr; throw std::bad_alloc(); }
    // more than the address space holds (for one-byte elements the compiler hands `new T[n]` requests through unchecked): refused like any
    // allocator would, before the arithmetic below could wrap around
    if (size > ((size_t)1 << 47)) { if (nothrow) return nullptr; throw std::bad_alloc(); }
    void *p;
    const bool over_aligned = align > alignof(std::max_align_t);
    // a request of a gigabyte or more (sizes that do not fit 32 bits are part of "much larger") is served from reserved, untouched address
    // space between two inaccessible pages: nothing is filled, only the pages the caller writes become real; the block ends within 16 bytes
    // of the upper guard page, so an overrun of the terminator faults
    const bool huge = size >= ((size_t)1 << 30) && !over_aligned;
    void *map_base = nullptr; size_t map_len = 0;
    if (huge) {
        const size_t PG = (size_t)sysconf(_SC_PAGESIZE);
        map_len = (size + 15) / 16 * 16; map_len = (map_len + PG - 1) / PG * PG + 2 * PG;
        map_base = mmap(nullptr, map_len, PROT_READ | PROT_WRITE, MAP_PRIVATE | MAP_ANONYMOUS | MAP_NORESERVE, -1, 0);
        if (map_base == MAP_FAILED) { if (nothrow) return nullptr; throw std::bad_alloc(); }
        mprotect(map_base, PG, PROT_NONE); mprotect((char *)map_base + map_len - PG, PG, PROT_NONE);
        p = (char *)map_base + map_len - PG - (size + 15) / 16 * 16;
    } else if (over_aligned) {
        size_t rounded = (size + align - 1) / align * align;
        p = RAW_ALIGNED(align, rounded ? rounded : align);
    } else {
        p = nullptr;
        if (sut && !cstyle) {      // HEAP_SHARED_LIFO: the most recently released block of exactly this size, whoever released it
            Lock l;
            if (s->run_active && s->policy == HEAP_SHARED_LIFO)
                for (size_t k = s->spare.size(), seen = 0; k-- > 0 && seen < 64; ++seen)
                    if (s->spare[k].size == size) { p = (char *)s->spare[k].user - RZ; s->spare.erase(s->spare.begin() + (std::ptrdiff_t)k); break; }
        }
        if (!p) p = RAW_MALLOC(size + 2 * RZ + (size ? 0 : 1));
        if (p && RZ) { std::memset(p, RZ_BYTE, RZ); p = (char *)p + RZ; std::memset((char *)p + size, RZ_BYTE, RZ); }
    }
    if (!p) { if (nothrow) return nullptr; throw std::bad_alloc(); }
    if (g_heap_range_hook && !huge) g_heap_range_hook(p, size);
    Lock l;
    if (sut && s->run_active && !huge) std::memset(p, s->fill_fresh, size);
    Entry e; e.id = s->next_id++; e.size = size; e.array = array; e.sut = sut; e.cstyle = cstyle;
    e.aligned = align > alignof(std::max_align_t) || huge; e.epoch = s->epoch; e.huge = huge; e.map_base = map_base; e.map_len = map_len;
    s->ledger[p] = e;
    s->freed.erase(p);
    if (sut && s->run_active) ++s->live_sut_this_run;
    return p;
}

void do_free(void *p, bool array, bool cstyle = false) {
    if (!p) return;
    State *s = S();
    if (g_heap_range_hook) { BlockInfo bi; if (heap_lookup(p, &bi) && bi.size < ((size_t)1 << 30)) g_heap_range_hook(p, bi.size); }
    Lock l;
    if (g_in_sut > 0) ++t_op_frees;
    auto it = s->ledger.find(p);
    if (it == s->ledger.end()) {
        // not the base of a live block: record, do not forward
        if (s->freed.count(p)) note_violation(s, HV_DOUBLE_FREE, "delete of a block already released", nullptr);
        else note_violation(s, HV_INVALID_FREE, "delete of a pointer that is not the base of a live heap block", nullptr);
        return;
    }
    Entry e = it->second;
    if (e.cstyle != cstyle)
        note_violation(s, HV_FORM_MISMATCH, cstyle ? "free() of a block from operator new" : "operator delete of a block from malloc", &e);
    else if (e.array != array)
        note_violation(s, HV_FORM_MISMATCH, array ? "delete[] of a block from scalar new" : "scalar delete of a block from new[]", &e);
    s->ledger.erase(it);
    if (RZ && !e.aligned && !rz_intact(p, e.size)) note_violation(s, HV_OVERRUN, "bytes just outside a heap block were overwritten (detected when it was released):", &e);
    if (e.sut && s->run_active && e.epoch == s->epoch && s->live_sut_this_run) --s->live_sut_this_run;
    if (e.huge) { if (s->run_active) s->freed.insert(p); munmap(e.map_base, e.map_len); return; }
#ifndef SIMRT_ASAN
    if (s->run_active) {
        s->freed.insert(p);
        if (e.sut) std::memset(p, s->fill_freed, e.size);
        if (s->policy == HEAP_QUARANTINE && e.sut) { s->quarantine.push_back(e.aligned ? p : (char *)p - RZ); s->quarantined.insert(p); return; }
        if (s->policy == HEAP_SHARED_LIFO && e.sut && !e.aligned && !e.cstyle && e.size <= ((size_t)1 << 22) && !(RZ && !rz_intact(p, e.size))) { s->spare.push_back(State::Spare{e.size, p}); return; }
    }
#else
    if (s->run_active) s->freed.insert(p);
#endif
    RAW_FREE(e.aligned ? p : (char *)p - RZ);
}

} // namespace

void heap_begin_run(HeapPolicy policy, uint8_t fill_fresh, uint8_t fill_freed) {
    State *s = S();
    Lock l;
    s->policy = policy; s->fill_fresh = fill_fresh; s->fill_freed = fill_freed;
    s->run_active = true; ++s->epoch; s->next_id = 1; s->live_sut_this_run = 0;
    s->freed.clear(); s->quarantined.clear();
    s->viol = HV_NONE; s->viol_detail[0] = 0;
    t_op_allocs = t_op_frees = 0; t_fail_at = 0; t_fault_fired = false;
}

namespace {
// Which of the SUT blocks that outlive every harness-owned library object are still *referred to* by an object with static or thread storage
// duration (a per-thread scratch stream, a one-slot cache, a lazily built table)?  Such a block is released when the thread or the process
// ends: it is retained, not leaked - the definition LeakSanitizer uses.  Roots: the writable segments and the calling thread's TLS block of
// every loaded object; the scan follows pointers through the retained blocks themselves.  Conservative in the direction of silence only: a
// stale word that happens to equal a block address hides a leak, it never invents one.  Runs only when something is still live.
struct Span { uintptr_t lo, hi; const void *base; bool sut_this_epoch; bool marked; };
typedef std::vector<Span, MallocAlloc<Span>> SpanVec;
struct ScanCtx { SpanVec *spans; std::vector<size_t, MallocAlloc<size_t>> *work; };
// (reads whole segments, the sanitizer's own guard zones between globals included: not instrumented)
__attribute__((no_sanitize("address"), noinline)) void scan_words(ScanCtx &c, uintptr_t lo, uintptr_t hi) {
    lo = (lo + sizeof(void *) - 1) & ~(uintptr_t)(sizeof(void *) - 1);
    SpanVec &v = *c.spans;
    for (uintptr_t a = lo; a + sizeof(void *) <= hi; a += sizeof(void *)) {
        const uintptr_t w = *(const volatile uintptr_t *)a;
        if (w < v.front().lo || w > v.back().hi) continue;
        size_t l = 0, r = v.size();
        while (l < r) { size_t m = (l + r) / 2; if (v[m].hi < w) l = m + 1; else r = m; }
        if (l < v.size() && v[l].lo <= w && w <= v[l].hi && !v[l].marked) { v[l].marked = true; c.work->push_back(l); }
    }
}
int phdr_cb(struct dl_phdr_info *info, size_t, void *arg) {
    ScanCtx &c = *(ScanCtx *)arg;
    for (int i = 0; i < info->dlpi_phnum; i++) {
        const ElfW(Phdr) &ph = info->dlpi_phdr[i];
        if (ph.p_type == PT_LOAD && (ph.p_flags & PF_W)) scan_words(c, info->dlpi_addr + ph.p_vaddr, info->dlpi_addr + ph.p_vaddr + ph.p_memsz);
        if (ph.p_type == PT_TLS && info->dlpi_tls_data) scan_words(c, (uintptr_t)info->dlpi_tls_data, (uintptr_t)info->dlpi_tls_data + ph.p_memsz);
    }
    return 0;
}
size_t g_last_retained_blocks = 0;
// thread-local storage of the other threads that execute library code on the harness' behalf (engine A's helper threads): registered by each such
// thread when it starts, scanned like the calling thread's own
struct TlsRange { uintptr_t lo, hi; };
TlsRange g_other_tls[64]; int g_other_tls_n = 0;
int note_tls_cb(struct dl_phdr_info *info, size_t, void *) {
    for (int i = 0; i < info->dlpi_phnum; i++) {
        const ElfW(Phdr) &ph = info->dlpi_phdr[i];
        if (ph.p_type == PT_TLS && info->dlpi_tls_data && g_other_tls_n < 64) g_other_tls[g_other_tls_n++] = TlsRange{(uintptr_t)info->dlpi_tls_data, (uintptr_t)info->dlpi_tls_data + ph.p_memsz};
    }
    return 0;
}
}
void heap_note_thread_roots() { Lock l; dl_iterate_phdr(note_tls_cb, nullptr); }
void heap_forget_thread_roots() { g_other_tls_n = 0; }
namespace {}

size_t heap_end_run() {
    State *s = S();
    PtrVec q;
    size_t live;
    SpanVec spans;
    {
        Lock l;
        q.swap(s->quarantine);
        for (auto &sp : s->spare) q.push_back((char *)sp.user - RZ);
        s->spare.clear();
        s->freed.clear(); s->quarantined.clear();
        s->run_active = false;
        live = s->live_sut_this_run;
        g_last_retained_blocks = 0;
        if (live) for (auto &kv : s->ledger) { const Entry &e = kv.second; if (e.sut && !e.huge) spans.push_back(Span{(uintptr_t)kv.first, (uintptr_t)kv.first + e.size, kv.first, e.epoch == s->epoch, false}); }
    }
    for (void *p : q) RAW_FREE(p);
    if (live && !spans.empty()) {
        std::sort(spans.begin(), spans.end(), [](const Span &a, const Span &b) { return a.lo < b.lo; });
        std::vector<size_t, MallocAlloc<size_t>> work;
        ScanCtx c{&spans, &work};
        dl_iterate_phdr(phdr_cb, &c);
        for (int k = 0; k < g_other_tls_n; k++) scan_words(c, g_other_tls[k].lo, g_other_tls[k].hi);
        while (!work.empty()) { size_t k = work.back(); work.pop_back(); scan_words(c, spans[k].lo, spans[k].hi); }
        size_t retained = 0;
        for (const Span &sp : spans) if (sp.sut_this_epoch && sp.marked) ++retained;
        g_last_retained_blocks = retained;
        live = retained < live ? live - retained : 0;
    }
    return live;
}
size_t heap_last_retained_blocks() { return g_last_retained_blocks; }
size_t heap_sut_bytes_live() { State *s = S(); Lock l; size_t n = 0; for (auto &kv : s->ledger) if (kv.second.sut && !kv.second.huge) n += kv.second.size; return n; }

size_t heap_live_sut_blocks() { State *s = S(); Lock l; return s->live_sut_this_run; }

bool heap_lookup(const void *p, BlockInfo *out) {
    State *s = S(); Lock l;
    auto it = s->ledger.find(p);
    if (it == s->ledger.end()) return false;
    if (out) { out->id = it->second.id; out->size = it->second.size; out->array = it->second.array;
               out->sut = it->second.sut; out->run_epoch = it->second.epoch; }
    return true;
}

bool heap_redzones_intact(char *detail, size_t n) {
    State *s = S(); Lock l;
    if (!RZ) return true;
    uint64_t worst = 0; size_t wsize = 0;
    for (auto &kv : s->ledger) {
        const Entry &e = kv.second;
        if (!e.sut || e.aligned || e.epoch != s->epoch) continue;
        if (!rz_intact(kv.first, e.size) && (worst == 0 || e.id < worst)) { worst = e.id; wsize = e.size; }
    }
    if (!worst) return true;
    if (detail && n) std::snprintf(detail, n, "bytes just outside live heap block#%llu (size %zu) were overwritten", (unsigned long long)worst, wsize);
    return false;
}

bool heap_huge_available() {
    static int ok = -1;
    if (ok < 0) {
        size_t len = (size_t)20 << 30;
        void *m = mmap(nullptr, len, PROT_READ | PROT_WRITE, MAP_PRIVATE | MAP_ANONYMOUS | MAP_NORESERVE, -1, 0);
        ok = m != MAP_FAILED; if (ok) munmap(m, len);
    }
    return ok == 1;
}
bool heap_was_freed(const void *p) { State *s = S(); Lock l; return s->freed.count(p) != 0; }
// released through the seam and still held back from the real allocator (quarantine policy): nobody else can have been given this address since
bool heap_in_quarantine(const void *p) { State *s = S(); Lock l; return s->run_active && s->quarantined.count(p) != 0; }

void heap_op_begin(uint32_t fail_at) { t_op_allocs = 0; t_op_frees = 0; t_fail_at = fail_at; t_fault_fired = false; }
void heap_op_end() { t_fail_at = 0; }
uint32_t heap_op_allocs() { return t_op_allocs; }
uint32_t heap_op_frees() { return t_op_frees; }
bool heap_fault_fired() { return t_fault_fired; }
HeapViolation heap_take_violation(char *detail, size_t n) {
    State *s = S(); Lock l;
    HeapViolation v = s->viol;
    if (detail && n) std::snprintf(detail, n, "%s", s->viol_detail);
    s->viol = HV_NONE; s->viol_detail[0] = 0;
    return v;
}
uint64_t heap_total_sut_allocs() { State *s = S(); Lock l; return s->total_sut_allocs; }
uint64_t heap_total_faults_fired() { State *s = S(); Lock l; return s->total_faults; }

} // namespace simrt

using simrt::do_alloc; using simrt::do_free;
#ifdef SIMRT_WRAP_MALLOC
// Library code reached malloc & co.  Outside library code (harness, libstdc++ internals compiled into our objects) the calls pass through.
// A fault makes malloc / calloc / realloc return NULL (and realloc leaves the old block alone), as the C allocator does.
extern "C" {
#ifdef SIMRT_SO
#define REAL(f) f
#else
#define REAL(f) __real_##f
#endif
void *__wrap_malloc(size_t n) { if (simrt::g_in_sut <= 0) return REAL(malloc)(n); return do_alloc(n, false, 0, true, true); }
void *__wrap_calloc(size_t a, size_t b) {
    if (simrt::g_in_sut <= 0) return REAL(calloc)(a, b);
    if (b && a > (size_t)-1 / b) return nullptr;
    void *p = do_alloc(a * b, false, 0, true, true); if (p) std::memset(p, 0, a * b); return p;
}
void __wrap_free(void *p) {
    if (!p) return;
    simrt::BlockInfo bi;
    // a live block of ours - or one that was released through the seam and is still quarantined (a genuine double free).  Under the immediate-reuse
    // policy a released block goes back to the real allocator, which may hand the same address to libc (open_memstream, getline ...): a free() of
    // an address that merely *was* ours once proves nothing there and is passed on (glibc's own double-free detection still applies).
    if (simrt::heap_lookup(p, &bi) || simrt::heap_in_quarantine(p)) { do_free(p, false, true); return; }
    REAL(free)(p);                                                                                        // somebody else's (libc, libstdc++ internals)
}
char *__wrap_strdup(const char *t) { size_t n = std::strlen(t) + 1; char *p = (char *)__wrap_malloc(n); if (p) std::memcpy(p, t, n); return p; }
char *__wrap_strndup(const char *t, size_t m) { size_t n = strnlen(t, m); char *p = (char *)__wrap_malloc(n + 1); if (p) { std::memcpy(p, t, n); p[n] = 0; } return p; }
void *__wrap_aligned_alloc(size_t al, size_t n) { if (simrt::g_in_sut <= 0) return REAL(aligned_alloc)(al, n); return do_alloc(n, false, al, true, true); }
int __wrap_posix_memalign(void **out, size_t al, size_t n) { if (simrt::g_in_sut <= 0) return REAL(posix_memalign)(out, al, n); void *p = do_alloc(n, false, al, true, true); if (!p) return 12 /*ENOMEM*/; *out = p; return 0; }
void *__wrap_realloc(void *p, size_t n) {
    simrt::BlockInfo bi;
    const bool ours = p && simrt::heap_lookup(p, &bi);
    if (simrt::g_in_sut <= 0 && !ours) return REAL(realloc)(p, n);
    if (!p) return __wrap_malloc(n);
    if (!ours) return REAL(realloc)(p, n);
    if (n == 0) { do_free(p, false, true); return nullptr; }
    void *q = do_alloc(n, false, 0, true, true);
    if (!q) return nullptr;                          // the old block stays valid and owned by the caller
    std::memcpy(q, p, bi.size < n ? bi.size : n);
    do_free(p, false, true);
    return q;
}
}
#endif
#define AL(a) ((size_t)(a))
void *operator new(size_t n) { return do_alloc(n, false, 0, false); }
void *operator new[](size_t n) { return do_alloc(n, true, 0, false); }
void *operator new(size_t n, const std::nothrow_t &) noexcept { return do_alloc(n, false, 0, true); }
void *operator new[](size_t n, const std::nothrow_t &) noexcept { return do_alloc(n, true, 0, true); }
void *operator new(size_t n, std::align_val_t a) { return do_alloc(n, false, AL(a), false); }
void *operator new[](size_t n, std::align_val_t a) { return do_alloc(n, true, AL(a), false); }
void *operator new(size_t n, std::align_val_t a, const std::nothrow_t &) noexcept { return do_alloc(n, false, AL(a), true); }
void *operator new[](size_t n, std::align_val_t a, const std::nothrow_t &) noexcept { return do_alloc(n, true, AL(a), true); }
void operator delete(void *p) noexcept { do_free(p, false); }
void operator delete[](void *p) noexcept { do_free(p, true); }
void operator delete(void *p, size_t) noexcept { do_free(p, false); }
void operator delete[](void *p, size_t) noexcept { do_free(p, true); }
void operator delete(void *p, const std::nothrow_t &) noexcept { do_free(p, false); }
void operator delete[](void *p, const std::nothrow_t &) noexcept { do_free(p, true); }
void operator delete(void *p, std::align_val_t) noexcept { do_free(p, false); }
void operator delete[](void *p, std::align_val_t) noexcept { do_free(p, true); }
void operator delete(void *p, size_t, std::align_val_t) noexcept { do_free(p, false); }
void operator delete[](void *p, size_t, std::align_val_t) noexcept { do_free(p, true); }
void operator delete(void *p, std::align_val_t, const std::nothrow_t &) noexcept { do_free(p, false); }
void operator delete[](void *p, std::align_val_t, const std::nothrow_t &) noexcept { do_free(p, true); }
