// Heap seam: replacement of the global operator new/delete family.
// Forwards to malloc/free (ASan still sees real allocations in the asan
// variant) and adds ledger, fault plan, fill patterns and reuse policy.
#include "simrt.h"
#include <cstdlib>
#include <cstring>
#include <new>
#include <atomic>
#include <unordered_map>
#include <unordered_set>
#include <vector>

namespace simrt {

thread_local int g_in_sut = 0;
void (*g_heap_range_hook)(const void *, size_t) = nullptr;     // engine B: shadow state of a block is cleared on hand-over

namespace {

template <class T> struct MallocAlloc {
    typedef T value_type;
    MallocAlloc() = default;
    template <class U> MallocAlloc(const MallocAlloc<U> &) {}
    T *allocate(size_t n) { void *p = std::malloc(n * sizeof(T)); if (!p) std::abort(); return (T *)p; }
    void deallocate(T *p, size_t) { std::free(p); }
    template <class U> bool operator==(const MallocAlloc<U> &) const { return true; }
    template <class U> bool operator!=(const MallocAlloc<U> &) const { return false; }
};

struct Entry { uint64_t id; size_t size; bool array; bool sut; bool aligned; uint32_t epoch; };
#ifdef SIMRT_ASAN
const size_t RZ = 0;          // AddressSanitizer has its own redzones (ours would hide overruns from it)
#else
const size_t RZ = 32;         // guard bytes before and after every block: overruns are detected deterministically
#endif
const unsigned char RZ_BYTE = 0xFA;
inline bool rz_intact(const void *user, size_t size) {
    const unsigned char *u = (const unsigned char *)user;
    for (size_t i = 0; i < RZ; i++) if (u[-(ptrdiff_t)RZ + (ptrdiff_t)i] != RZ_BYTE || u[size + i] != RZ_BYTE) return false;
    return true;
}
typedef std::unordered_map<const void *, Entry, std::hash<const void *>, std::equal_to<const void *>,
                           MallocAlloc<std::pair<const void *const, Entry>>> Ledger;
typedef std::unordered_set<const void *, std::hash<const void *>, std::equal_to<const void *>,
                           MallocAlloc<const void *>> PtrSet;
typedef std::vector<void *, MallocAlloc<void *>> PtrVec;

struct State {
    Ledger ledger;
    PtrSet freed;          // bases freed during this run and not handed out again
    PtrVec quarantine;
    HeapPolicy policy = HEAP_IMMEDIATE;
    uint8_t fill_fresh = 0xA5, fill_freed = 0xDD;
    bool run_active = false;
    uint32_t epoch = 0;
    uint64_t next_id = 1;
    size_t live_sut_this_run = 0;
    HeapViolation viol = HV_NONE;
    char viol_detail[160] = {0};
    uint64_t total_sut_allocs = 0, total_faults = 0;
};

// per-operation fault plan and counters: one set per thread (engine B interleaves operations of several caller threads; engines A and C
// only ever use the main thread, for which this is the same as a global)
thread_local uint32_t t_op_allocs = 0, t_op_frees = 0, t_fail_at = 0;
thread_local bool t_fault_fired = false;

State *S() {
    // constructed on first use, never destroyed (allocations happen before/after main)
    static State *s = nullptr;
    if (!s) { void *m = std::malloc(sizeof(State)); s = new (m) State(); }
    return s;
}

std::atomic_flag g_lock = ATOMIC_FLAG_INIT;
struct Lock {
    Lock() { while (g_lock.test_and_set(std::memory_order_acquire)) { } }
    ~Lock() { g_lock.clear(std::memory_order_release); }
};

void note_violation(State *s, HeapViolation v, const char *what, const Entry *e) {
    if (s->viol != HV_NONE) return;
    s->viol = v;
    if (e) std::snprintf(s->viol_detail, sizeof s->viol_detail, "%s block#%llu size=%zu %s", what,
                         (unsigned long long)e->id, e->size, e->array ? "new[]" : "new");
    else std::snprintf(s->viol_detail, sizeof s->viol_detail, "%s", what);
}

void *do_alloc(size_t size, bool array, size_t align, bool nothrow) {
    const bool sut = g_in_sut > 0;
    State *s = S();
    bool fail = false;
    {
        Lock l;
        if (sut) {
            ++t_op_allocs;
            ++s->total_sut_allocs;
            if (t_fail_at && t_op_allocs == t_fail_at) {
                t_fault_fired = true;
                ++s->total_faults;
                fail = true;
            }
        }
    }
    if (fail) { if (nothrow) return nullptr; throw std::bad_alloc(); }
    void *p;
    const bool over_aligned = align > alignof(std::max_align_t);
    if (over_aligned) {
        size_t rounded = (size + align - 1) / align * align;
        p = std::aligned_alloc(align, rounded ? rounded : align);
    } else {
        p = std::malloc(size + 2 * RZ + (size ? 0 : 1));
        if (p && RZ) { std::memset(p, RZ_BYTE, RZ); p = (char *)p + RZ; std::memset((char *)p + size, RZ_BYTE, RZ); }
    }
    if (!p) { if (nothrow) return nullptr; throw std::bad_alloc(); }
    if (g_heap_range_hook) g_heap_range_hook(p, size);
    Lock l;
    if (sut && s->run_active) std::memset(p, s->fill_fresh, size);
    Entry e; e.id = s->next_id++; e.size = size; e.array = array; e.sut = sut;
    e.aligned = align > alignof(std::max_align_t); e.epoch = s->epoch;
    s->ledger[p] = e;
    s->freed.erase(p);
    if (sut && s->run_active) ++s->live_sut_this_run;
    return p;
}

void do_free(void *p, bool array) {
    if (!p) return;
    State *s = S();
    if (g_heap_range_hook) { BlockInfo bi; if (heap_lookup(p, &bi)) g_heap_range_hook(p, bi.size); }
    Lock l;
    if (g_in_sut > 0) ++t_op_frees;
    auto it = s->ledger.find(p);
    if (it == s->ledger.end()) {
        // not the base of a live block: record, do not forward
        if (s->freed.count(p)) note_violation(s, HV_DOUBLE_FREE, "delete of a block already released", nullptr);
        else note_violation(s, HV_INVALID_FREE, "delete of a pointer that is not the base of a live heap block", nullptr);
        return;
    }
    Entry e = it->second;
    if (e.array != array)
        note_violation(s, HV_FORM_MISMATCH, array ? "delete[] of a block from scalar new" : "scalar delete of a block from new[]", &e);
    s->ledger.erase(it);
    if (RZ && !e.aligned && !rz_intact(p, e.size)) note_violation(s, HV_OVERRUN, "bytes just outside a heap block were overwritten (detected when it was released):", &e);
    if (e.sut && s->run_active && e.epoch == s->epoch && s->live_sut_this_run) --s->live_sut_this_run;
#ifndef SIMRT_ASAN
    if (s->run_active) {
        s->freed.insert(p);
        if (e.sut) std::memset(p, s->fill_freed, e.size);
        if (s->policy == HEAP_QUARANTINE && e.sut) { s->quarantine.push_back(e.aligned ? p : (char *)p - RZ); return; }
    }
#else
    if (s->run_active) s->freed.insert(p);
#endif
    std::free(e.aligned ? p : (char *)p - RZ);
}

} // namespace

void heap_begin_run(HeapPolicy policy, uint8_t fill_fresh, uint8_t fill_freed) {
    State *s = S();
    Lock l;
    s->policy = policy; s->fill_fresh = fill_fresh; s->fill_freed = fill_freed;
    s->run_active = true; ++s->epoch; s->next_id = 1; s->live_sut_this_run = 0;
    s->freed.clear();
    s->viol = HV_NONE; s->viol_detail[0] = 0;
    t_op_allocs = t_op_frees = 0; t_fail_at = 0; t_fault_fired = false;
}

size_t heap_end_run() {
    State *s = S();
    PtrVec q;
    size_t live;
    {
        Lock l;
        q.swap(s->quarantine);
        s->freed.clear();
        s->run_active = false;
        live = s->live_sut_this_run;
    }
    for (void *p : q) std::free(p);
    return live;
}

size_t heap_live_sut_blocks() { State *s = S(); Lock l; return s->live_sut_this_run; }

bool heap_lookup(const void *p, BlockInfo *out) {
    State *s = S(); Lock l;
    auto it = s->ledger.find(p);
    if (it == s->ledger.end()) return false;
    if (out) { out->id = it->second.id; out->size = it->second.size; out->array = it->second.array;
               out->sut = it->second.sut; out->run_epoch = it->second.epoch; }
    return true;
}

bool heap_redzones_intact(char *detail, size_t n) {
    State *s = S(); Lock l;
    if (!RZ) return true;
    uint64_t worst = 0; size_t wsize = 0;
    for (auto &kv : s->ledger) {
        const Entry &e = kv.second;
        if (!e.sut || e.aligned || e.epoch != s->epoch) continue;
        if (!rz_intact(kv.first, e.size) && (worst == 0 || e.id < worst)) { worst = e.id; wsize = e.size; }
    }
    if (!worst) return true;
    if (detail && n) std::snprintf(detail, n, "bytes just outside live heap block#%llu (size %zu) were overwritten", (unsigned long long)worst, wsize);
    return false;
}

bool heap_was_freed(const void *p) { State *s = S(); Lock l; return s->freed.count(p) != 0; }

void heap_op_begin(uint32_t fail_at) { t_op_allocs = 0; t_op_frees = 0; t_fail_at = fail_at; t_fault_fired = false; }
void heap_op_end() { t_fail_at = 0; }
uint32_t heap_op_allocs() { return t_op_allocs; }
uint32_t heap_op_frees() { return t_op_frees; }
bool heap_fault_fired() { return t_fault_fired; }
HeapViolation heap_take_violation(char *detail, size_t n) {
    State *s = S(); Lock l;
    HeapViolation v = s->viol;
    if (detail && n) std::snprintf(detail, n, "%s", s->viol_detail);
    s->viol = HV_NONE; s->viol_detail[0] = 0;
    return v;
}
uint64_t heap_total_sut_allocs() { State *s = S(); Lock l; return s->total_sut_allocs; }
uint64_t heap_total_faults_fired() { State *s = S(); Lock l; return s->total_faults; }

} // namespace simrt

using simrt::do_alloc; using simrt::do_free;
#define AL(a) ((size_t)(a))
void *operator new(size_t n) { return do_alloc(n, false, 0, false); }
void *operator new[](size_t n) { return do_alloc(n, true, 0, false); }
void *operator new(size_t n, const std::nothrow_t &) noexcept { return do_alloc(n, false, 0, true); }
void *operator new[](size_t n, const std::nothrow_t &) noexcept { return do_alloc(n, true, 0, true); }
void *operator new(size_t n, std::align_val_t a) { return do_alloc(n, false, AL(a), false); }
void *operator new[](size_t n, std::align_val_t a) { return do_alloc(n, true, AL(a), false); }
void *operator new(size_t n, std::align_val_t a, const std::nothrow_t &) noexcept { return do_alloc(n, false, AL(a), true); }
void *operator new[](size_t n, std::align_val_t a, const std::nothrow_t &) noexcept { return do_alloc(n, true, AL(a), true); }
void operator delete(void *p) noexcept { do_free(p, false); }
void operator delete[](void *p) noexcept { do_free(p, true); }
void operator delete(void *p, size_t) noexcept { do_free(p, false); }
void operator delete[](void *p, size_t) noexcept { do_free(p, true); }
void operator delete(void *p, const std::nothrow_t &) noexcept { do_free(p, false); }
void operator delete[](void *p, const std::nothrow_t &) noexcept { do_free(p, true); }
void operator delete(void *p, std::align_val_t) noexcept { do_free(p, false); }
void operator delete[](void *p, std::align_val_t) noexcept { do_free(p, true); }
void operator delete(void *p, size_t, std::align_val_t) noexcept { do_free(p, false); }
void operator delete[](void *p, size_t, std::align_val_t) noexcept { do_free(p, true); }
void operator delete(void *p, std::align_val_t, const std::nothrow_t &) noexcept { do_free(p, false); }
void operator delete[](void *p, std::align_val_t, const std::nothrow_t &) noexcept { do_free(p, true); }
