// simrt — shared runtime of the string_theory simulators.
//
// Everything a run decides comes from one Rng seeded from VERIF_SEED.  The
// runtime owns the three environment seams the library touches:
//   * the heap (operator new/delete replacement with ledger, fault plan,
//     fill patterns, reuse policy),
//   * simulated time (a step clock driven by -fsanitize-coverage=trace-pc),
//   * fatal events (abort/ST_ASSERT, terminate, signals, sanitizer reports).
// This TU and its siblings are compiled WITHOUT instrumentation.
#pragma once
#include <cstdint>
#include <cstddef>
#include <cstdio>

namespace simrt {

// ---------------------------------------------------------------- PRNG
struct Rng {
    uint64_t s[4];
    static uint64_t splitmix(uint64_t &x) {
        uint64_t z = (x += 0x9E3779B97F4A7C15ull);
        z = (z ^ (z >> 30)) * 0xBF58476D1CE4E5B9ull;
        z = (z ^ (z >> 27)) * 0x94D049BB133111EBull;
        return z ^ (z >> 31);
    }
    void seed(uint64_t v) { for (auto &w : s) w = splitmix(v); }
    static uint64_t rotl(uint64_t x, int k) { return (x << k) | (x >> (64 - k)); }
    uint64_t next() {
        const uint64_t r = rotl(s[1] * 5, 7) * 9, t = s[1] << 17;
        s[2] ^= s[0]; s[3] ^= s[1]; s[1] ^= s[2]; s[0] ^= s[3]; s[2] ^= t;
        s[3] = rotl(s[3], 45);
        return r;
    }
    // uniform in [0,n) ; n>0
    uint32_t below(uint32_t n) { return (uint32_t)(((next() >> 32) * (uint64_t)n) >> 32); }
    uint32_t range(uint32_t lo, uint32_t hi) { return lo + below(hi - lo + 1); }   // inclusive
    bool chance(uint32_t num, uint32_t den) { return below(den) < num; }
};
inline uint64_t mix(uint64_t a, uint64_t b, uint64_t c) {
    uint64_t x = a ^ (b * 0x9E3779B97F4A7C15ull) ^ (c * 0xC2B2AE3D27D4EB4Full);
    uint64_t t = x; return Rng::splitmix(t);
}
// FNV-1a style running hash used for history signatures
struct Hash {
    uint64_t h = 0xcbf29ce484222325ull;
    void u8(uint8_t b) { h ^= b; h *= 0x100000001b3ull; }
    void u64(uint64_t v) { for (int i = 0; i < 8; i++) u8((uint8_t)(v >> (8 * i))); }
    void bytes(const void *p, size_t n) { auto c = (const uint8_t *)p; for (size_t i = 0; i < n; i++) u8(c[i]); }
    void str(const char *s) { while (*s) u8((uint8_t)*s++); u8(0); }
};

// ---------------------------------------------------------------- heap seam
enum HeapPolicy { HEAP_IMMEDIATE = 0, HEAP_QUARANTINE = 1,
                  HEAP_SHARED_LIFO = 2 };     // a released block is handed to the next request of the same size at once, whichever thread makes it
                                              // (what a central free list does; glibc's per-thread caches make that rare): engine B
enum HeapViolation { HV_NONE = 0, HV_DOUBLE_FREE, HV_INVALID_FREE, HV_FORM_MISMATCH, HV_OVERRUN };

struct BlockInfo { uint64_t id; size_t size; bool array; bool sut; uint32_t run_epoch; };

void heap_begin_run(HeapPolicy policy, uint8_t fill_fresh, uint8_t fill_freed);
// releases quarantined blocks; returns the number of SUT blocks of this run that are still live and that no object with static or thread
// storage duration refers to (directly or through another retained block): leaked, as opposed to retained until the thread / process ends
size_t heap_end_run();
size_t heap_last_retained_blocks();        // SUT blocks of the run just ended that are still live but referred to from static / thread storage
void heap_note_thread_roots();             // called by a thread other than the main one that will execute library code: its thread-local storage is a root too
void heap_forget_thread_roots();           // (after fork: those threads do not exist in the child)
size_t heap_sut_bytes_live();              // bytes in SUT blocks of any run that are live right now
size_t heap_live_sut_blocks();             // SUT blocks allocated in the current run and still live
bool heap_lookup(const void *p, BlockInfo *out);   // p must be the base of a live block
bool heap_redzones_intact(char *detail, size_t n);   // guard bytes around every live SUT block of this run (plain variant)
bool heap_was_freed(const void *p);
bool heap_huge_available();                // blocks of a gigabyte and more can be served (reserved address space, nothing touched)
bool heap_in_quarantine(const void *p);   // released through the seam and still withheld from the real allocator        // p is the base of a block freed earlier in this run (and not reused)
// per-operation control
void heap_op_begin(uint32_t fail_at /*0 = never; k = k-th SUT allocation of this op throws*/);
void heap_op_end();                        // disarm the fault plan (fault_fired stays readable)
uint32_t heap_op_allocs();                 // SUT allocations attempted since heap_op_begin
uint32_t heap_op_frees();
bool heap_fault_fired();
HeapViolation heap_take_violation(char *detail, size_t n);  // first violation since last take
uint64_t heap_total_sut_allocs();
uint64_t heap_total_faults_fired();

extern thread_local int g_in_sut;          // >0 while library code runs on this thread
struct SutScope { SutScope() { ++g_in_sut; } ~SutScope() { --g_in_sut; } };

// ---------------------------------------------------------------- step clock
void clock_arm(uint64_t budget);           // start counting; exceeding budget => fatal no_progress
uint64_t clock_disarm();                   // returns steps consumed since arm
uint64_t clock_total();                    // all steps counted in SUT mode so far

// ---------------------------------------------------------------- fatal events
void fatal_install();
void run_deadline(unsigned seconds);      // wall-clock allowance for the current run (SIGALRM -> FATAL class=hang); 0 cancels
void run_deadline(unsigned seconds);      // wall-clock allowance for the current run (SIGALRM -> FATAL class=hang)
void fatal_context(const char *fmt, ...) __attribute__((format(printf, 1, 2)));
[[noreturn]] void fatal(const char *cls, const char *detail);
// exit codes of a worker that died on a fatal event
enum { EXIT_FATAL = 70, EXIT_SANITIZER = 77 };
// when set, fatal() longjmps are not used; instead a callback can veto exit (used by forked shrink children: none)
const char *last_assert_text();

} // namespace simrt
